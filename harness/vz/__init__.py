"""vz - conformance harness binding the TLA+ specifications in /verif/spec to seismic-zfp."""
