CONSTANT DiskBlockBytes = 64
CONSTANT WBug = "none"
CONSTANT Tier = "thorough"
SPECIFICATION Spec
INVARIANT Layout
INVARIANT Hash
INVARIANT Rows
CHECK_DEADLOCK FALSE
