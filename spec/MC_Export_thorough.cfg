CONSTANT HBug = "none"
CONSTANT EBug = "none"
CONSTANT NFm = 4
CONSTANT Vals = {0, 1}
SPECIFICATION Spec
INVARIANT PRoundTrip
CHECK_DEADLOCK FALSE
