"""Cooperative scheduler over the writer pipeline of the UNMODIFIED code.

conversion_utils.Queue / conversion_utils.Thread and the module-level open() are replaced, for the duration of one
conversion, by objects that stop the calling thread at every scheduling point (thread start, queue put / get /
task_done / join, file write, flush, return) until the controller grants it.  Exactly one thread runs between two
points, so an execution is fully determined by the sequence of grants: TLC-generated schedules are replayed step by
step, seeded random schedules and bounded exhaustive exploration use the same machinery.  Every executed step is
logged with its arguments; the log is what Trace_Writer.tla validates."""
import builtins
import collections
import contextlib
import hashlib
import queue as _queue
import threading

import numpy as np
import zfpy


class Abort(BaseException):
    """raised inside a parked thread when the controller tears the execution down"""


_prev_hook = threading.excepthook


def _hook(args):
    if issubclass(args.exc_type, Abort):
        return
    _prev_hook(args)


threading.excepthook = _hook


def digest(b):
    return hashlib.sha1(bytes(b)).hexdigest()[:16]


class Controller:
    def __init__(self, out_path, rate):
        self.out_path, self.rate = out_path, rate
        self.cv = threading.Condition()
        self.pending = {}            # role -> dict(op=..., enabled=fn, info=...)
        self.alive = []              # roles in creation order
        self.finished = set()
        self.running = None
        self.grant = None
        self.abort = False
        self.events = []
        self.queues = []
        self.roles = {}              # thread ident -> role
        self.items = {}              # digest of compressed item -> item id
        self.nput = 0
        self.handles = 0
        self.error = {}
        self.returned_at = None      # index in events of M's return

    # ---- called from the scheduled threads -------------------------------------------------------
    def role(self):
        return self.roles.get(threading.get_ident(), '?')

    def point(self, op, enabled=None, **info):
        r = self.role()
        with self.cv:
            self.pending[r] = {'op': op, 'enabled': enabled or (lambda: True), 'info': info}
            if self.running == r:
                self.running = None
            self.cv.notify_all()
            while self.grant != r and not self.abort:
                self.cv.wait()
            if self.abort:
                raise Abort()
            self.grant = None
            del self.pending[r]
            self.running = r

    def log(self, op, **kw):
        e = {'seq': len(self.events), 'tid': self.role(), 'op': op}
        e.update(kw)
        self.events.append(e)

    def thread_done(self, r, exc=None):
        with self.cv:
            self.finished.add(r)
            if exc is not None:
                self.error[r] = exc
            if self.running == r:
                self.running = None
            self.cv.notify_all()

    # ---- called from the controlling (harness) thread -----------------------------------------------
    def wait_quiescent(self, timeout=3.0):
        with self.cv:
            ok = self.cv.wait_for(lambda: self.running is None and self.grant is None and
                                  all(r in self.pending or r in self.finished for r in self.alive), timeout)
            if not ok:
                raise RuntimeError(f'scheduler: no quiescence (running={self.running}, pending={list(self.pending)})')

    def enabled(self):
        with self.cv:
            return [r for r in self.alive if r in self.pending and self.pending[r]['enabled']()]

    def pending_ops(self):
        with self.cv:
            return {r: (p['op'], p['info'].get('q')) for r, p in self.pending.items()}

    def step(self, r):
        with self.cv:
            self.grant = r
            self.cv.notify_all()
        self.wait_quiescent()

    def teardown(self):
        with self.cv:
            self.abort = True
            self.cv.notify_all()


class SchedQueue:
    def __init__(self, ctl, maxsize=0):
        self.ctl, self.maxsize = ctl, maxsize
        self.items = collections.deque()
        self.unfinished = 0
        self.name = ['cq', 'wq'][len(ctl.queues)] if len(ctl.queues) < 2 else f'q{len(ctl.queues)}'
        ctl.queues.append(self)

    def _ident(self, item):
        c = self.ctl
        if self.name == 'cq':
            c.nput += 1
            try:
                comp = zfpy.compress_numpy(item, rate=c.rate, write_header=False)
                c.items[digest(comp)] = c.nput
            except Exception:
                pass
            c.items[('obj', id(item))] = c.nput
            return c.nput
        return c.items.get(digest(item), 0)

    def put(self, item, block=True, timeout=None):
        limited = (timeout is not None) or not block
        self.ctl.point('put', lambda: self.maxsize <= 0 or len(self.items) < self.maxsize or limited, q=self.name)
        if 0 < self.maxsize <= len(self.items):
            self.ctl.log('put_timeout', q=self.name)
            raise _queue.Full()
        k = self._ident(item)
        self.items.append((k, item))
        self.unfinished += 1
        self.ctl.log('put', q=self.name, item=k, qlen=len(self.items), unfinished=self.unfinished)

    def get(self, block=True, timeout=None):
        # a get with a time limit (or non-blocking) may give up whenever the queue is empty: under the scheduler the limit expires as
        # soon as the thread is chosen at an empty queue - a timing any real clock admits
        limited = (timeout is not None) or not block
        self.ctl.point('get', lambda: len(self.items) > 0 or limited, q=self.name)
        if not self.items:
            self.ctl.log('get_timeout', q=self.name)
            raise _queue.Empty()
        k, item = self.items.popleft()
        self.ctl.log('get', q=self.name, item=k, qlen=len(self.items), unfinished=self.unfinished)
        return item

    def task_done(self):
        self.ctl.point('task_done', None, q=self.name)
        self.unfinished -= 1
        self.ctl.log('task_done', q=self.name, unfinished=self.unfinished)

    def join(self):
        self.ctl.point('join', lambda: self.unfinished == 0, q=self.name)
        self.ctl.log('join', q=self.name, unfinished=self.unfinished)

    @property
    def unfinished_tasks(self):
        """queue.Queue's public counter: reading it is an observation another thread can get in between (a scheduling point)"""
        self.ctl.point('peek', None, q=self.name)
        return self.unfinished

    def qsize(self):
        return len(self.items)

    def empty(self):
        return not self.items

    def full(self):
        return 0 < self.maxsize <= len(self.items)


class SchedThread:
    def __init__(self, ctl, target=None, args=(), kwargs=None, **kw):
        self.ctl, self.target, self.args, self.kwargs = ctl, target, args, kwargs or {}
        self.daemon = kw.get('daemon', False)
        name = getattr(target, '__name__', 'thread')
        base = {'compressor': 'C', 'writer': 'W'}.get(name, 'T')
        n = sum(1 for r in ctl.alive if r.rstrip('0123456789') == base)
        self.role = base if n == 0 else f'{base}{n + 1}'
        self.name = self.role
        self._t = None

    def start(self):
        ctl = self.ctl
        ctl.point('start', None, who=self.role)
        with ctl.cv:
            ctl.alive.append(self.role)
        ctl.log('start', who=self.role)

        def body():
            ctl.roles[threading.get_ident()] = self.role
            with ctl.cv:
                ctl.running = ctl.running       # no-op; the thread counts as running until its first point
            exc = None
            try:
                self.target(*self.args, **self.kwargs)
            except Abort:
                pass
            except BaseException as e:      # noqa
                exc = e
            ctl.thread_done(self.role, exc)
        self._t = threading.Thread(target=body, name=self.role, daemon=True)
        # the new thread must reach its first point before anyone else is granted a step
        with ctl.cv:
            ctl.pending.pop(self.role, None)
        self._t.start()
        with ctl.cv:
            ctl.cv.wait_for(lambda: self.role in ctl.pending or self.role in ctl.finished, 30.0)

    def join(self, timeout=None):
        self.ctl.point('thread_join', lambda: self.role in self.ctl.finished, who=self.role)

    def is_alive(self):
        return self.role not in self.ctl.finished


class SchedFile:
    """a handle on the output file: every write / flush is a scheduling point and is logged with what it carries"""

    def __init__(self, ctl, path, mode):
        self.ctl, self.name, self.mode = ctl, path, mode
        ctl.handles += 1
        self.hid = ctl.handles
        self._f = builtins.open(path, mode, buffering=0)
        self.closed = False

    def write(self, data):
        data = bytes(data)
        self.ctl.point('write', None, h=self.hid)
        off = self._f.tell()
        self.ctl.log('write', h=self.hid, off=off, len=len(data), item=self.ctl.items.get(digest(data), 0),
                     first=(self.hid == 1 and off == 0))
        return self._f.write(data)

    def seek(self, *a):
        return self._f.seek(*a)

    def tell(self):
        return self._f.tell()

    def read(self, *a):
        return self._f.read(*a)

    def flush(self):
        self.ctl.point('flush', None, h=self.hid)
        self.ctl.log('flush', h=self.hid)
        return self._f.flush()

    def close(self):
        if not self.closed:
            self.closed = True
            self._f.close()

    def __getattr__(self, name):        # truncate, fileno, readinto, ...: the real (unbuffered) file's business, not a scheduling point
        return getattr(self.__dict__['_f'], name)

    def __enter__(self):
        return self

    def __exit__(self, *exc):
        self.close()


@contextlib.contextmanager
def installed(ctl):
    import queue as _queue
    import seismic_zfp.conversion as cv
    import seismic_zfp.conversion_utils as cu
    import seismic_zfp.cropping as cr

    def mk_open(path, mode='r', *a, **kw):
        if path == ctl.out_path and ('w' in mode or '+' in mode or 'a' in mode):
            return SchedFile(ctl, path, mode)
        return builtins.open(path, mode, *a, **kw)

    def mk_queue(maxsize=0):
        return SchedQueue(ctl, maxsize)

    def mk_thread(*a, **kw):
        return SchedThread(ctl, *a, **kw)

    saved = []
    for m, name, val in ((cu, 'Queue', mk_queue), (cu, 'Thread', mk_thread), (cv, 'open', mk_open), (cu, 'open', mk_open),
                         (cr, 'open', mk_open)):
        saved.append((m, name, m.__dict__.get(name, None)))
        if not (m is threading):
            setattr(m, name, val)
    try:
        yield
    finally:
        for m, name, old in saved:
            if m is threading:
                continue
            if old is None:
                delattr(m, name)
            else:
                setattr(m, name, old)


def execute(thunk, out_path, rate, chooser, max_steps=5000, grace=40):
    """Run thunk() (a conversion writing out_path) under the scheduler.
    chooser(ctl, enabled_roles, step_index) -> role to grant (or None to stop).
    Returns dict(events, outcome in {'returned','deadlock','error','stopped'}, late_writes, error)."""
    ctl = Controller(out_path, rate)
    res = {'outcome': None, 'late': [], 'error': None}

    def main():
        ctl.roles[threading.get_ident()] = 'M'
        exc = None
        try:
            thunk()
            ctl.point('return', None)
            ctl.log('return')
        except Abort:
            pass
        except BaseException as e:      # noqa
            exc = e
        ctl.thread_done('M', exc)

    with installed(ctl):
        ctl.alive.append('M')
        t = threading.Thread(target=main, name='M', daemon=True)
        with ctl.cv:
            ctl.running = 'M'
        t.start()
        steps = 0
        try:
            ctl.wait_quiescent()
            while True:
                if 'M' in ctl.finished:
                    break
                en = ctl.enabled()
                if not en:
                    res['outcome'] = 'deadlock'
                    break
                if steps >= max_steps:
                    res['outcome'] = 'stopped'
                    break
                r = chooser(ctl, en, steps)
                if r is None:
                    res['outcome'] = 'stopped'
                    break
                if r not in en:
                    res['outcome'] = 'schedule-mismatch'
                    res['error'] = f'step {steps}: schedule wants {r}, enabled {en}, pending {ctl.pending_ops()}'
                    break
                ctl.step(r)
                steps += 1
            if res['outcome'] is None:
                if 'M' in ctl.error:
                    res['outcome'] = 'error'
                    res['error'] = repr(ctl.error['M'])
                else:
                    res['outcome'] = 'returned'
                    nret = len(ctl.events)
                    # nothing may be written after the call returned: keep stepping whoever is still enabled
                    g = 0
                    while g < grace:
                        en = ctl.enabled()
                        if not en:
                            break
                        ctl.step(en[0])
                        g += 1
                    res['late'] = [e for e in ctl.events[nret:] if e['op'] == 'write']
                    res['after_return_steps'] = g
            for r, e in ctl.error.items():
                if r != 'M' and res['error'] is None:
                    res['error'] = f'{r}: {e!r}'
        except RuntimeError as e:
            res['outcome'] = 'harness-error'
            res['error'] = str(e)
        finally:
            ctl.teardown()
    res['events'] = ctl.events
    res['steps'] = steps
    res['pending'] = ctl.pending_ops()
    return res


# ---- choosers ----------------------------------------------------------------------------------------------
def sequential(ctl, en, i):
    """the strictly sequential execution: writer first, then compressor, then the producer"""
    for r in ('W', 'C', 'M'):
        if r in en:
            return r
    return en[0]


def from_roles(roles):
    def ch(ctl, en, i):
        if i < len(roles):
            return roles[i]
        return sequential(ctl, en, i)
    return ch


def seeded(seed):
    rng = np.random.default_rng(seed)

    def ch(ctl, en, i):
        return en[int(rng.integers(len(en)))]
    return ch
