----------------------------- MODULE SgzFormat -----------------------------
(***************************************************************************)
(* The SGZ container format of docs/file-specification.md, formalised.     *)
(* No variables: every definition is a function of a file descriptor F.    *)
(*                                                                         *)
(* F is a record                                                           *)
(*   dim  : 2 or 3                                                         *)
(*   n    : <<ni, nx, nz>>   real extent (2-D: ni = 1, nx = trace count)   *)
(*   b    : <<bi, bx, bz>>   blockshape in voxels (2-D: bi = 1)            *)
(*   ub   : bytes per compression unit (4x4x4 voxels, 4x4 in 2-D)          *)
(*   hblk : number of 4 KiB header blocks (2 for every file ever written)  *)
(*   padfoot : TRUE iff the recorded version is > 0.2.1 (512-padded footer,*)
(*             trace-count field)                                          *)
(*   narr : number of header arrays in the footer                          *)
(*   ntr  : trace count (3-D structured: ni*nx; irregular: #traces)        *)
(* Sample values never appear: a unit is identified by its unit coordinate *)
(* <<ui,ux,uz>> and a voxel by <<i,x,z>>.                                  *)
(***************************************************************************)
EXTENDS Integers, Sequences, FiniteSets

CONSTANT DiskBlockBytes        \* 4096 in every real file; smaller in scaled-down model runs

CeilDiv(a, m) == (a + m - 1) \div m
Pad(a, m)     == CeilDiv(a, m) * m         \* utils.pad
Min(a, b)     == IF a < b THEN a ELSE b
Max(a, b)     == IF a > b THEN a ELSE b

HeaderBytes(F) == F.hblk * DiskBlockBytes

\* extent of one compression unit along each axis
UnitExt(F) == IF F.dim = 3 THEN <<4, 4, 4>> ELSE <<1, 4, 4>>

\* padded extent in voxels, in units, in blocks
\* (per-axis operators Xa(F, a) are what the definitions use: TLC does not memoise, and building the
\*  three-element function for every X(F)[a] dominated the run time)
UE(F, a)  == IF F.dim = 3 \/ a > 1 THEN 4 ELSE 1
Pa(F, a)  == Pad(F.n[a], F.b[a])
NUa(F, a) == Pa(F, a) \div UE(F, a)
NBa(F, a) == Pa(F, a) \div F.b[a]
UBa(F, a) == F.b[a] \div UE(F, a)
P(F)  == [a \in 1..3 |-> Pa(F, a)]
NU(F) == [a \in 1..3 |-> NUa(F, a)]
NB(F) == [a \in 1..3 |-> NBa(F, a)]
\* units per block along each axis
UB(F) == [a \in 1..3 |-> UBa(F, a)]

UnitsPerBlock(F) == UBa(F, 1) * UBa(F, 2) * UBa(F, 3)
BlockBytes(F)    == UnitsPerBlock(F) * F.ub
DataBlocks(F)    == NBa(F, 1) * NBa(F, 2) * NBa(F, 3)
DataBytes(F)     == DataBlocks(F) * DiskBlockBytes
\* a "chunk": the blocks that span a complete set of traces (read.py:209)
ChunkBytes(F)    == BlockBytes(F) * NBa(F, 3)

\* The descriptor is one the format admits
WellFormed(F) ==
    /\ F.dim \in {2, 3}
    /\ \A a \in 1..3 : F.n[a] >= 1 /\ F.b[a] >= UE(F, a) /\ F.b[a] % UE(F, a) = 0
    /\ F.dim = 2 => (F.b[1] = 1 /\ F.n[1] = 1)
    /\ BlockBytes(F) = DiskBlockBytes

(***************************************************************************)
(* Where a unit lives.  Blocks are stored in i-x-z raster order, units     *)
(* inside a block in i-x-z raster order of the block.                      *)
(***************************************************************************)
Units(F)  == {<<ui, ux, uz>> : ui \in 0..(NUa(F, 1)-1), ux \in 0..(NUa(F, 2)-1), uz \in 0..(NUa(F, 3)-1)}
BlockOf(F, u)    == <<u[1] \div UBa(F, 1), u[2] \div UBa(F, 2), u[3] \div UBa(F, 3)>>
BlockIndex(F, k) == (k[1] * NBa(F, 2) + k[2]) * NBa(F, 3) + k[3]
InBlock(F, u)    == ((u[1] % UBa(F, 1)) * UBa(F, 2) + (u[2] % UBa(F, 2))) * UBa(F, 3) + (u[3] % UBa(F, 3))
\* offset relative to the start of the data section
UnitOff(F, u)    == BlockIndex(F, BlockOf(F, u)) * DiskBlockBytes + InBlock(F, u) * F.ub
\* absolute file offset
UnitAddr(F, u)   == HeaderBytes(F) + UnitOff(F, u)

\* inverse: which unit starts at data-section offset off (off must be unit aligned inside a block)
UnitAtOff(F, off) ==
    LET blk == off \div DiskBlockBytes
        inb == (off % DiskBlockBytes) \div F.ub
        k3  == blk % NBa(F, 3)
        k2  == (blk \div NBa(F, 3)) % NBa(F, 2)
        k1  == blk \div (NBa(F, 3) * NBa(F, 2))
        w3  == inb % UBa(F, 3)
        w2  == (inb \div UBa(F, 3)) % UBa(F, 2)
        w1  == inb \div (UBa(F, 3) * UBa(F, 2))
    IN  <<k1 * UBa(F, 1) + w1, k2 * UBa(F, 2) + w2, k3 * UBa(F, 3) + w3>>

UnitOfVoxel(F, v) == <<v[1] \div UE(F, 1), v[2] \div UE(F, 2), v[3] \div UE(F, 3)>>
BlockOfVoxel(F, v) == BlockIndex(F, <<v[1] \div F.b[1], v[2] \div F.b[2], v[3] \div F.b[3]>>)

\* A unit holds at least one real (unpadded) voxel
RealUnit(F, u) == \A a \in 1..3 : u[a] * UE(F, a) < F.n[a]

\* UnitOff is a bijection between Units(F) and the unit-aligned slots of the data section
LayoutBijective(F) ==
    /\ \A u \in Units(F) : UnitOff(F, u) \in 0..(DataBytes(F) - F.ub)
                           /\ UnitOff(F, u) % F.ub = 0
                           /\ UnitAtOff(F, UnitOff(F, u)) = u
    /\ Cardinality({UnitOff(F, u) : u \in Units(F)}) = DataBlocks(F) * UnitsPerBlock(F)

(***************************************************************************)
(* Footer                                                                  *)
(***************************************************************************)
GridTraces(F)   == IF F.dim = 3 THEN F.n[1] * F.n[2] ELSE F.n[2]
EntryBytes(F)   == 4 * GridTraces(F)                       \* header bytes 60-63
FooterStride(F) == IF F.padfoot THEN 512 * CeilDiv(EntryBytes(F), 512) ELSE EntryBytes(F)
ArrayOffset(F, k) == HeaderBytes(F) + DataBytes(F) + k * FooterStride(F)     \* k = 0..narr-1
FileLen(F)      == HeaderBytes(F) + DataBytes(F) + F.narr * FooterStride(F)
\* shortest file from which everything is still readable (last array unpadded)
MinFileLen(F)   == IF F.narr = 0 THEN HeaderBytes(F) + DataBytes(F)
                   ELSE ArrayOffset(F, F.narr - 1) + EntryBytes(F)

(***************************************************************************)
(* Header field layout (byte ranges, signedness) of the first 4 KiB block  *)
(***************************************************************************)
HeaderFields ==
  << [name |-> "n_header_blocks", lo |-> 0,  hi |-> 4,  signed |-> FALSE],
     [name |-> "n_samples",       lo |-> 4,  hi |-> 8,  signed |-> FALSE],
     [name |-> "n_xlines",        lo |-> 8,  hi |-> 12, signed |-> FALSE],
     [name |-> "n_ilines",        lo |-> 12, hi |-> 16, signed |-> FALSE],
     [name |-> "min_sample",      lo |-> 16, hi |-> 20, signed |-> TRUE],
     [name |-> "min_xline",       lo |-> 20, hi |-> 24, signed |-> TRUE],
     [name |-> "min_iline",       lo |-> 24, hi |-> 28, signed |-> TRUE],
     [name |-> "sample_interval", lo |-> 28, hi |-> 32, signed |-> TRUE],
     [name |-> "xline_interval",  lo |-> 32, hi |-> 36, signed |-> TRUE],
     [name |-> "iline_interval",  lo |-> 36, hi |-> 40, signed |-> TRUE],
     [name |-> "bits_per_voxel",  lo |-> 40, hi |-> 44, signed |-> TRUE],
     [name |-> "blockshape_il",   lo |-> 44, hi |-> 48, signed |-> FALSE],
     [name |-> "blockshape_xl",   lo |-> 48, hi |-> 52, signed |-> FALSE],
     [name |-> "blockshape_z",    lo |-> 52, hi |-> 56, signed |-> FALSE],
     [name |-> "data_blocks",     lo |-> 56, hi |-> 60, signed |-> FALSE],
     [name |-> "entry_bytes",     lo |-> 60, hi |-> 64, signed |-> FALSE],
     [name |-> "n_header_arrays", lo |-> 64, hi |-> 68, signed |-> FALSE],
     [name |-> "tracecount",      lo |-> 68, hi |-> 72, signed |-> FALSE],
     [name |-> "version",         lo |-> 72, hi |-> 76, signed |-> FALSE],
     [name |-> "source_format",   lo |-> 76, hi |-> 80, signed |-> FALSE],
     [name |-> "header_detection",lo |-> 80, hi |-> 84, signed |-> FALSE] >>
HashRange     == <<960, 980>>
TableRange    == <<980, 2048>>        \* 89 rows x 3 x int32
TextRange     == <<4096, 7296>>
BinaryRange   == <<7296, 7696>>

(***************************************************************************)
(* Conformance of header values H (a record of the named integer fields)   *)
(* with the truth T = [F, il0, ilstep, xl0, xlstep, z0, dz_us, rate_code,  *)
(* ntr].  rate_code is bits-per-voxel, negative = reciprocal.              *)
(***************************************************************************)
RateCodeOK(F, rc) ==      \* ub = 64*rate/8 (3-D) or 16*rate/8 (2-D), exactly
    LET vox == IF F.dim = 3 THEN 64 ELSE 16
    IN  IF rc > 0 THEN F.ub * 8 = vox * rc ELSE F.ub * 8 * (0 - rc) = vox

Conformant(F, H, T) ==
    /\ WellFormed(F)
    /\ H.n_header_blocks = F.hblk
    /\ H.n_samples = F.n[3]
    /\ F.dim = 3 => /\ H.n_xlines = F.n[2] /\ H.n_ilines = F.n[1]
                    /\ H.min_xline = T.xl0 /\ H.min_iline = T.il0
                    /\ H.xline_interval = T.xlstep /\ H.iline_interval = T.ilstep
    /\ H.min_sample = T.z0 /\ H.sample_interval = T.dz
    /\ RateCodeOK(F, H.bits_per_voxel)
    /\ H.blockshape_il = F.b[1] /\ H.blockshape_xl = F.b[2] /\ H.blockshape_z = F.b[3]
    /\ H.data_blocks = DataBlocks(F)
    /\ H.entry_bytes = EntryBytes(F)
    /\ H.n_header_arrays = F.narr
    /\ F.padfoot => H.tracecount = F.ntr
    /\ T.filelen = FileLen(F)
=============================================================================
