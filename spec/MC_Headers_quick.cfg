CONSTANT HBug = "none"
CONSTANT NFm = 3
CONSTANT Vals = {0, 1, 2}
SPECIFICATION MCSpec
INVARIANT PReadable
INVARIANT PThorough
INVARIANT PHeuristic
INVARIANT PStrip
INVARIANT PNumpy
INVARIANT PTableNames
INVARIANT PGrid
CHECK_DEADLOCK FALSE
