CONSTANT DiskBlockBytes = 64
CONSTANT Bug = "none"
CONSTANT Tier = "quick"
SPECIFICATION Spec
INVARIANT BoundsSafe
CHECK_DEADLOCK FALSE
