--------------------------- MODULE SgzWriterData ---------------------------
(***************************************************************************)
(* Data-flow of the converters (conversion_utils.py producers): which unit *)
(* of the edge-extended source ends up in which slot of the data section,  *)
(* and which source planes/traces are fed to the hash.                     *)
(* A unit is identified by its coordinate in the padded unit grid; what it *)
(* contains is determined by the coordinate and the padding rule (edge     *)
(* replication; zero fill for holes of irregular surveys), which the       *)
(* harness interprets on real data.                                        *)
(***************************************************************************)
EXTENDS SgzFormat

CONSTANT WBug     \* "none" | spec-level mutants: "switch_b0" (layout switch on blockshape[0] alone),
                  \*          "hash_pad_2d" (2-D hash includes the replicated padding traces),
                  \*          "hash_whole_aligned" (3-D: the whole plane-set buffer is hashed when it has no x/z padding),
                  \*          "last_set_short" (the final plane set is always treated as the short one)

\* conversion_utils.py:292/381 (3-D) and 326 (2-D): a whole plane set is one item iff the code's switch says so
WholeSet(F) == IF F.dim = 2 THEN F.b[2] = 4
               ELSE IF WBug = "switch_b0" THEN F.b[1] = 4 ELSE F.b[1] = 4 /\ F.b[2] = 4

\* units of one item, in the raster order zfpy codes them: item buffer of su units starting at unit coordinate o
ItemUnits(o, su) == [k \in 1..(su[1] * su[2] * su[3]) |->
                        <<o[1] + ((k-1) \div (su[2] * su[3])), o[2] + (((k-1) \div su[3]) % su[2]), o[3] + ((k-1) % su[3])>>]

\* the items the producer puts, in order.  3-D: plane sets along axis 1; 2-D: trace groups along axis 2.
PlaneSets(F) == IF F.dim = 3 THEN NBa(F, 1) ELSE NBa(F, 2)
ItemsOfSet(F, ps) ==
    IF F.dim = 3
    THEN IF WholeSet(F) THEN << ItemUnits(<<ps * UBa(F, 1), 0, 0>>, <<UBa(F, 1), NUa(F, 2), NUa(F, 3)>>) >>
         ELSE [j \in 1..(NBa(F, 2) * NBa(F, 3)) |->
                 ItemUnits(<<ps * UBa(F, 1), ((j-1) \div NBa(F, 3)) * UBa(F, 2), ((j-1) % NBa(F, 3)) * UBa(F, 3)>>,
                           <<UBa(F, 1), UBa(F, 2), UBa(F, 3)>>)]
    ELSE IF WholeSet(F) THEN << ItemUnits(<<0, ps * UBa(F, 2), 0>>, <<1, UBa(F, 2), NUa(F, 3)>>) >>
         ELSE [j \in 1..NBa(F, 3) |-> ItemUnits(<<0, ps * UBa(F, 2), (j-1) * UBa(F, 3)>>, <<1, UBa(F, 2), UBa(F, 3)>>)]

RECURSIVE Concat(_, _)
Concat(f, k) == IF k = 0 THEN <<>> ELSE Concat(f, k - 1) \o f[k]
Flatten(ss) == Concat(ss, Len(ss))
Items(F) == Flatten([ps \in 1..PlaneSets(F) |-> ItemsOfSet(F, ps - 1)])
\* the data section as written: the compressed items one after the other (C16 shows the order is kept)
WrittenSlots(F) == Flatten(Items(F))

\* C01 / C08 / C09 (layout half): writer order, reader addressing and header agree
DataIsIdealLayout(F) ==
    /\ Len(WrittenSlots(F)) * F.ub = DataBytes(F)
    /\ \A s \in 1..Len(WrittenSlots(F)) : WrittenSlots(F)[s] = UnitAtOff(F, (s - 1) * F.ub)

\* C20: what is fed to the hash, as <<plane or trace ordinal>> in order.  3-D: real planes of every plane set;
\* 2-D: rows of every group buffer (row i of a group holds trace g*bx+i, or the last trace when beyond the end).
HashStream(F) ==
    IF F.dim = 3
    THEN Flatten([ps \in 1..NBa(F, 1) |->          \* numpy_producer / seismic_file_producer: the real planes of every plane set
            LET toRead == IF ps * F.b[1] > F.n[1] THEN F.n[1] % F.b[1] ELSE F.b[1]
                rows   == IF WBug = "hash_whole_aligned" /\ Pa(F, 2) = F.n[2] /\ Pa(F, 3) = F.n[3] THEN F.b[1] ELSE toRead
            IN  [i \in 1..rows |-> IF i <= toRead THEN (ps - 1) * F.b[1] + i - 1 ELSE F.n[1] - 1]])
    ELSE Flatten([g \in 1..NBa(F, 2) |->
            LET toRead == IF g * F.b[2] > F.n[2] THEN F.n[2] % F.b[2] ELSE F.b[2]
                rows   == IF WBug = "hash_pad_2d" THEN Min(F.b[2], F.n[2]) ELSE toRead
            IN  [i \in 1..rows |-> IF i <= toRead THEN (g - 1) * F.b[2] + i - 1 ELSE F.n[2] - 1]])
\* Which source plane fills row i (1-based) of plane set ps (1-based) of the file-route producer (seismic_file_producer +
\* io_thread_func): the real planes first, then the last populated plane repeated ("edge" replication along the plane axis;
\* 2-D: traces of a group, the last trace repeated)
PlaneRows(F, ps) ==
    LET a == IF F.dim = 3 THEN 1 ELSE 2
        n == F.n[a]
        b == F.b[a]
        short == IF WBug = "last_set_short" THEN ps = NBa(F, a) ELSE ps * b > n
        toRead == IF short THEN n % b ELSE b
    IN  [i \in 1..b |-> IF i <= toRead THEN (ps - 1) * b + i - 1
                         ELSE IF F.dim = 3 THEN (ps - 1) * b + toRead - 1 ELSE n - 1]
\* C01 / C09 (content half): every row is the source plane the edge-extended ideal has there
EdgeRows(F) == LET a == IF F.dim = 3 THEN 1 ELSE 2
               IN  \A ps \in 1..NBa(F, a) : \A i \in 1..F.b[a] : PlaneRows(F, ps)[i] = Min((ps - 1) * F.b[a] + i - 1, F.n[a] - 1)

HashIsSource(F) == HashStream(F) = [i \in 1..(IF F.dim = 3 THEN F.n[1] ELSE F.n[2]) |-> i - 1]
=============================================================================
