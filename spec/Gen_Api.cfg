CONSTANT DiskBlockBytes = 4096
SPECIFICATION Spec
