"""C07 I/O proportionality: the range reads a call issues touch exactly the 4 KiB data blocks SgzApi!NeededBlocks
names (cold) / a subset (warm), no byte twice; open touches header blocks only; regular trace header = 4 bytes per
stored array; preload fetches the data section exactly once.  Local and blob backends."""
import numpy as np

from .. import env, inputs, readcalls, session
from ..backends import CountingFile, FakeBlob
from . import c02

FINISH = dict(
    level='model_checking',
    rule='per file x in-range call (stratified residues) x {cold, warm} x {local, blob} x preload: the recorded '
         '(offset,len) sequence is judged against TLC-computed needed blocks; non-trivial = distinct (file, op, args, mode)',
    assumptions=['a block counts as touched if any of its bytes is fetched', 'mask/footer reads on behalf of a sample read '
                 'of an irregular file are metadata (at most once per reader)'],
    trusted=['zfpy', 'numpy', 'TLC'])

BLK = 4096


def touched(reads, hb, data_bytes):
    """-> (set of data blocks touched, bytes outside the data section, duplicated bytes)"""
    blocks, outside, dup = set(), 0, 0
    seen = []
    for off, n, got in reads:
        if n <= 0:
            continue
        lo, hi = off, off + n
        dlo, dhi = max(lo, hb), min(hi, hb + data_bytes)
        if dhi > dlo:
            blocks |= set(range((dlo - hb) // BLK, (dhi - 1 - hb) // BLK + 1))
        outside += (hi - lo) - max(0, dhi - dlo)
        for a, b in seen:
            dup += max(0, min(b, hi) - max(a, lo))
        seen.append((lo, hi))
    return blocks, outside, dup


def open_reader(fc, data, backend, preload=False):
    from seismic_zfp.read import SgzReader
    h = CountingFile(data, name=fc.path) if backend == 'local' else FakeBlob(data, name=fc.path)
    with env.quiet():
        r = SgzReader(h, preload=preload)
    return r, h


def run(run):
    run.mc('MC_Reader', f'MC_Reader_C07_{run.tier}')
    run.mc('MC_HeaderIo', 'MC_HeaderIo', workers=4)
    rng = np.random.default_rng(run.seed)
    quick = run.tier == 'quick'
    fx = inputs.fixture_sgz()
    keep = ('padding_6x7', 'small-2d', 'small_hole', 'small_2bit-64x64', 'small_8bit-8x8', 'small_8bit.', 'small_4bit', 'small_v0.0.1') if quick else \
        ('padding_6x7', 'padding_8x5', 'small-2d', 'small-irregular', 'small_2bit-64x64', 'small_8bit-8x8', 'small_8bit.', 'small_4bit',
         'small_hole', 'small_05bit', 'small-dec', 'small_v0.0.1', 'small_1bit')
    fx = [f for f in fx if any(k in f for k in keep)]
    cases = session.load_files([session.FileCase(p) for p in fx] + c02.written_files(run, run.tier) + c02.written_2d(run, run.tier), run)
    calls = []
    for fi, fc in enumerate(cases):
        big = max(fc.F['n']) > 1000 or fc.F['n'][0] * fc.F['n'][1] > 3000
        for op, a in readcalls.in_range_calls(fc.F, rng, 60 if (quick or big) else 400):
            calls.append((fi, op, a))
    answers = session.eval_calls(cases, calls, run)
    by_file = {}
    for c, ans in zip(calls, answers):
        by_file.setdefault(c[0], []).append((c[1], c[2], ans))
    for fi, fc in enumerate(cases):
        lay = fc.layout
        hb = fc.F['hblk'] * BLK
        db = lay['data_blocks'] * BLK
        data = fc.ref.bytes
        irregular = bool(fc.F['mask'])
        fcase = {'file': fc.label, 'F': {k: fc.F[k] for k in ('dim', 'n', 'b', 'ub')}}
        for backend in ('local', 'blob'):
            # ---- open touches header blocks only
            r, h = open_reader(fc, data, backend)
            opened = h.take()
            case = dict(fcase, op='open', backend=backend)
            run.case(case)
            run.check(all(off + n <= hb for off, n, _ in opened), 'C07.open-header-only', case, opened, f'within [0,{hb})')
            if backend == 'local':      # ... and so does opening through seismic_zfp.open (the emulator and each of its accessors), for any chunk-cache size
                import seismic_zfp
                for K in (None, 1, 4):
                    eh = CountingFile(data, name=fc.path)
                    case = dict(fcase, op='seismic_zfp.open', backend=backend, chunk_cache_size=K)
                    run.case(case)
                    try:
                        with env.quiet():
                            emu = seismic_zfp.open(eh, chunk_cache_size=K)
                        eopened = eh.take()
                        run.check(all(off + n <= hb for off, n, _ in eopened), 'C07.open-header-only', case,
                                  [x for x in eopened if x[0] + x[1] > hb][:6], f'within [0,{hb})')
                        with env.quiet():
                            emu.__exit__(None, None, None)
                    except BaseException as e:
                        if isinstance(e, (KeyboardInterrupt, SystemExit, MemoryError)):
                            raise
                        run.fail('C07.open-header-only', case, f'{type(e).__name__}: {e}', 'opens')
            mask_reads = 0
            items = by_file.get(fi, [])
            if backend == 'blob':
                items = items[::3]
            for op, a, ans in items:
                alt = ans['alts'][0]
                needed = set(ans['needed'][0])
                for mode in ('cold', 'warm'):
                    case = dict(fcase, op=op, args=a, backend=backend, mode=mode)
                    run.case(case)
                    if mode == 'cold':
                        with env.quiet():
                            r.loader.clear_cache()
                            r._read_containing_chunk_cached.cache_clear()
                            r.clear_variant_headers()
                    with env.quiet():
                        out = readcalls.invoke(r, op, a)
                    reads = h.take()
                    if out[0] == 'raise':
                        run.fail(f'C07.call-ok[{op}]', case, readcalls.describe(out), 'value')
                        continue
                    if op == 'gen_trace_header':
                        if irregular or fc.F['dim'] == 2:
                            # arrays are loaded whole (documented); cold: each stored array once
                            ok = all(any(off == o for o in lay['array_offsets']) or (irregular and n == lay['entry_bytes'])
                                     for off, n, _ in reads)
                            run.check(ok, 'C07.header-arrays', case, reads, lay['array_offsets'])
                        else:
                            exp = sorted((o + 4 * a[0], 4) for o in lay['array_offsets'])
                            got = sorted((off, n) for off, n, _ in reads)
                            run.check(got == exp, 'C07.header-4-bytes-per-array', case, got, exp)
                        continue
                    # metadata reads of irregular files (population mask) are exempt, at most once per reader
                    meta = [x for x in reads if x[0] >= hb + db]
                    reads = [x for x in reads if x[0] < hb + db]
                    if meta:
                        mask_reads += len(meta)
                        run.check(irregular and mask_reads <= 1 or (irregular and mode == 'cold' and len(meta) <= 1),
                                  'C07.metadata-once', case, meta, 'one mask read per reader (irregular only)')
                    if mode == 'cold' and ans['model']['kind'] == 'value':
                        # code -> spec: the recorded range reads are exactly those SgzReader!Call predicts
                        got = sorted((off - hb, n) for off, n, _ in reads)
                        if got == sorted(tuple(x) for x in ans['model']['reads']):
                            run.traces_validated += 1
                        else:
                            run.drift(f"reads of {op}{a} on {fc.label}: code {got[:4]} model {ans['model']['reads'][:4]}")
                    blocks, outside, dup = touched(reads, hb, db)
                    run.check(outside == 0, f'C07.data-section-only[{op}]', case,
                              {'bytes_outside': outside, 'reads': reads[:6]}, 0)
                    run.check(dup == 0, f'C07.no-byte-twice[{op}]', case, {'dup_bytes': dup, 'reads': reads[:6]}, 0)
                    run.check(blocks <= needed, f'C07.only-needed-blocks[{op}]', case,
                              {'extra': sorted(blocks - needed)[:10], 'reads': reads[:6]}, sorted(needed)[:20])
                    if mode == 'cold':
                        run.check(blocks == needed, f'C07.exactly-needed-blocks[{op}]', case,
                                  {'missing': sorted(needed - blocks)[:10], 'extra': sorted(blocks - needed)[:10]}, sorted(needed)[:20])
            with env.quiet():
                r.close()
            # ---- preload: the data section exactly once at open, never again
            r, h = open_reader(fc, data, backend, preload=True)
            opened = h.take()
            case = dict(fcase, op='open', backend=backend, preload=True)
            run.case(case)
            dreads = [(off, n) for off, n, _ in opened if off + n > hb]
            run.check(dreads == [(hb, db)], 'C07.preload-once', case, dreads, [(hb, db)])
            for op, a, ans in items[:40]:
                if op == 'gen_trace_header':
                    continue
                case = dict(fcase, op=op, args=a, backend=backend, preload=True)
                run.case(case)
                with env.quiet():
                    out = readcalls.invoke(r, op, a)
                reads = [x for x in h.take() if x[0] < hb + db]
                run.check(out[0] == 'value' and reads == [], f'C07.preload-no-data-io[{op}]', case, reads, [])
                ok, detail = readcalls.compare(out, ans['alts'], fc.ref)
                run.check(ok, f'C07.preload-value[{op}]', case, detail, 'ideal')
            with env.quiet():
                r.close()
    accessor_slices(run, cases)
    warm_diagonals(run, cases)
    header_histories(run, [c for c in cases if any(k in c.label for k in ('small_8bit.', 'small-irregular', 'small_hole', 'small-2d', 'padding_6x7')) or c.label.startswith('numpy(9, 10, 70)')])


def accessor_slices(run, cases):
    """Not part of the statement, so never a violation: ONE expression of the segyio-style interface that returns several lines
    (iline[a:b:c], xline[a:b:c]) is a sequence of read calls; C07 bounds each call, not their sum.  In the default layout the
    one-entry line-group caches make the whole expression fetch every block once; whether that still holds is reported as
    model drift (a lost cache key is a performance regression, like the chunk LRU of `warm_diagonals`)."""
    from seismic_zfp.segyio_emulator import SegyioEmulator
    sel = [fc for fc in cases if fc.F['dim'] == 3 and not fc.F['mask'] and max(fc.F['n']) <= 1000 and fc.F['b'][0] == 4 and fc.F['b'][1] == 4][:6]
    for fc in sel:
        ni, nx, _ = fc.F['n']
        hb, db = fc.F['hblk'] * BLK, fc.layout['data_blocks'] * BLK
        for kind, n in (('xline', nx), ('iline', ni)):
            for lo, hi, step in ((0, min(n, 4), 1), (0, min(n, 8), 2), (1, min(n, 4), 1)):
                idx = list(range(lo, hi, step))
                if len(idx) < 2:
                    continue
                h = CountingFile(fc.ref.bytes, name=fc.path)
                try:
                    with env.quiet():
                        e = SegyioEmulator(h)
                        h.take()
                        ax = e.xlines if kind == 'xline' else e.ilines
                        d = int(ax[1] - ax[0])
                        sl = slice(int(ax[idx[0]]), int(ax[idx[-1]]) + d, step * d)
                        got = [np.array(x, copy=True) for x in (e.xline if kind == 'xline' else e.iline)[sl]]
                        reads = [x for x in h.take() if x[0] < hb + db]
                        e.close_sgz_file()
                except BaseException as ex:
                    if isinstance(ex, (KeyboardInterrupt, SystemExit, MemoryError)):
                        raise
                    run.drift(f'{fc.label} emu.{kind}[{idx}]: {type(ex).__name__}: {ex}')
                    continue
                _, _, dup = touched(reads, hb, db)
                if dup or len(got) != len(idx):
                    run.drift(f'{fc.label} emu.{kind}[{idx}] (one expression over lines of line groups): {dup} bytes fetched more than once')
                else:
                    run.traces_validated += 1


def warm_diagonals(run, cases):
    """Not part of the statement (no clause constrains I/O ACROSS calls), so never a violation: whether the chunk LRU still holds a whole
    diagonal, i.e. whether repeating a diagonal read on the same reader fetches anything.  Reported as model drift."""
    for fc in cases:
        F = fc.F
        if F['dim'] != 3 or F['mask'] or F['b'][0] != 4 or F['b'][1] != 4:
            continue
        ni, nx = F['n'][0], F['n'][1]
        r, h = open_reader(fc, fc.ref.bytes, 'local')
        h.take()
        try:
            for ad in sorted({min(ni, nx) - 1, min(ni, nx), max(ni, nx) - 1}):
                with env.quiet():
                    r.read_anticorrelated_diagonal(ad)
                    h.take()
                    r.read_anticorrelated_diagonal(ad)
                again = [x for x in h.take() if x[0] >= F['hblk'] * BLK]
                if again:
                    run.drift(f'{fc.label}: repeating anticorrelated diagonal {ad} re-fetched {len(again)} ranges (chunk LRU smaller than a diagonal)')
                    break
        finally:
            with env.quiet():
                r.close()


def header_histories(run, cases, only=None):
    """header accessors as a small state machine (SgzHeaderIo): every history of length 3 over {header of the first / last trace, tracefield of
    the first / last stored word, clear} on one reader; per step the recorded range reads against what the model derives for the REAL file"""
    import itertools
    import segyio
    from .. import tlc
    jobs = []
    for fc in cases:
        if not fc.stored:
            continue
        F = fc.F
        tc = readcalls.tracecount(F)
        kind = '2d' if F['dim'] == 2 else ('irregular' if F['mask'] else 'regular')
        tpl = {}
        # stored-array index of every stored word; the inline word may alias another stored array
        maskarr = (fc.stored.index(189) + 1) if 189 in fc.stored else (fc.stored.index(fc.alias[189]) + 1 if 189 in fc.alias and fc.alias[189] in fc.stored else 1)
        ops = [('gen_trace_header', 0), ('gen_trace_header', tc - 1), ('get_tracefield_values', 1), ('get_tracefield_values', len(fc.stored)), ('clear', 0)]
        hs = list(itertools.product(range(len(ops)), repeat=3))
        if run.tier == 'quick':
            hs = hs[::2]
        for h in hs:
            hist = [ops[i] for i in h]
            if only is not None and (fc.label, [list(x) for x in hist]) != only:
                continue
            jobs.append((fc, kind, maskarr, hist))
    if not jobs:
        return
    items = [{'F': {k: v for k, v in fc.F.items() if k in ('dim', 'n', 'b', 'ub', 'hblk', 'padfoot', 'narr', 'ntr')}, 'kind': kind, 'dup': len(fc.alias),
              'maskarr': maskarr, 'history': [[op, a if op != 'gen_trace_header' or kind != 'irregular' else a] for op, a in hist]} for fc, kind, maskarr, hist in jobs]
    out = tlc.oracle('Gen_HeaderIo', {'items': items}, key='items', per_shard=100)
    run.add_tlc({'distinct': 0, 'generated': out['_tlc']['generated'], 'wall_s': out['_tlc']['wall_s']}, 'Gen_HeaderIo')
    for (fc, kind, maskarr, hist), ev in zip(jobs, out['items']):
        lay = fc.layout
        case = {'file': fc.label, 'op': 'header-history', 'history': [list(x) for x in hist]}
        run.case(case)
        r, h = open_reader(fc, fc.ref.bytes, 'local')
        h.take()
        bad = None
        drift = None
        try:
            for (op, a), st in zip(hist, ev['steps']):
                with env.quiet():
                    if op == 'gen_trace_header':
                        r.gen_trace_header(a)
                    elif op == 'get_tracefield_values':
                        r.get_tracefield_values(fc.stored[a - 1])
                    else:
                        r.clear_variant_headers()
                got = sorted((off, n) for off, n, _ in h.take())
                want = sorted((x[0], x[1]) for x in st['reads'])
                infoot = all(any(o <= off and off + n <= o + lay['entry_bytes'] for o in lay['array_offsets']) for off, n in got)
                if not infoot:
                    bad = ('C07.header-reads-in-footer', got[:4], want[:4])
                elif op == 'gen_trace_header' and kind == 'regular' and got != want:
                    bad = ('C07.header-4-bytes-per-array', got[:6], want[:6])
                elif sum(n for _, n in got) > sum(n for _, n in want):
                    bad = ('C07.header-no-extra-io', got[:4], want[:4])
                elif got != want and drift is None:
                    drift = (op, a, got[:3], want[:3])
                if bad:
                    break
        except BaseException as e:
            if isinstance(e, (KeyboardInterrupt, SystemExit, MemoryError)):
                raise
            bad = ('C07.header-call-ok', f'{type(e).__name__}: {e}', 'a header')
        finally:
            with env.quiet():
                r.close()
        if bad:
            run.fail(bad[0], case, bad[1], bad[2])
        else:
            run.ok('C07.header-history')
            if drift:
                run.drift(f'{case}: header reads {drift}')
            else:
                run.traces_validated += 1


def replay(run, rep):
    if rep['case'].get('op') == 'header-history':
        case = rep['case']
        fx = [p for p in inputs.fixture_sgz() if p.endswith('/' + case['file'])]
        pool = [session.FileCase(fx[0])] if fx else c02.written_files(run, 'thorough') + c02.written_2d(run, 'thorough')
        cs = [c for c in session.load_files(pool, run) if c.label == case['file']]
        header_histories(run, cs, only=(case['file'], case['history']))
        return
    from ..props import c02 as _c02
    case = rep['case']
    fx = [p for p in inputs.fixture_sgz() if p.endswith('/' + case['file'])]
    if fx:
        fc = session.load_files([session.FileCase(fx[0])], run)[0]
    else:
        fc = [c for c in session.load_files(_c02.written_files(run, 'thorough') + _c02.written_2d(run, 'thorough'), run) if c.label == case['file']][0]
    hb, db = fc.F['hblk'] * BLK, fc.layout['data_blocks'] * BLK
    r, h = open_reader(fc, fc.ref.bytes, case.get('backend', 'local'), preload=case.get('preload', False))
    opened = h.take()
    if case['op'] == 'seismic_zfp.open':
        import seismic_zfp
        eh = CountingFile(fc.ref.bytes, name=fc.path)
        with env.quiet():
            emu = seismic_zfp.open(eh, chunk_cache_size=case.get('chunk_cache_size'))
        eopened = eh.take()
        with env.quiet():
            emu.__exit__(None, None, None)
        run.check(all(off + n <= hb for off, n, _ in eopened), rep['clause'], case, [x for x in eopened if x[0] + x[1] > hb][:6], None)
        return
    if case['op'] == 'open':
        if case.get('preload'):
            dreads = [(off, n) for off, n, _ in opened if off + n > hb]
            run.check(dreads == [(hb, db)], rep['clause'], case, dreads, None)
        else:
            run.check(all(off + n <= hb for off, n, _ in opened), rep['clause'], case, opened, None)
        return
    ans = session.eval_calls([fc], [(0, case['op'], case['args'])], run)[0]
    with env.quiet():
        if case.get('mode') == 'warm':
            readcalls.invoke(r, case['op'], case['args'])
            h.take()
        out = readcalls.invoke(r, case['op'], case['args'])
    reads = h.take()
    blocks, outside, dup = touched([x for x in reads if x[0] < hb + db], hb, db)
    needed = set(ans['needed'][0])
    cl = rep['clause']
    if 'exactly' in cl:
        run.check(blocks == needed, cl, case, sorted(blocks), sorted(needed))
    elif 'only-needed' in cl:
        run.check(blocks <= needed, cl, case, sorted(blocks), sorted(needed))
    elif 'no-byte-twice' in cl:
        run.check(dup == 0, cl, case, dup, 0)
    elif 'data-section-only' in cl:
        run.check(outside == 0, cl, case, outside, 0)
    elif 'header-4' in cl:
        exp = sorted((o + 4 * case['args'][0], 4) for o in fc.layout['array_offsets'])
        run.check(sorted((o, n) for o, n, _ in reads) == exp, cl, case, reads, exp)
    elif 'preload-no-data-io' in cl:
        run.check(reads == [], cl, case, reads, [])
    else:
        run.check(True, cl, case)
