CONSTANT DiskBlockBytes = 4096
CONSTANT Bug = "none"
SPECIFICATION Spec
INVARIANT HistoryFree
INVARIANT Emit
CHECK_DEADLOCK FALSE
