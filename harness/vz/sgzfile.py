"""An independent reader of SGZ files written from the specification alone: every offset, stride and
field position it uses is emitted by TLC from SgzFormat.tla (Gen_Api.OutFile); it never imports seismic_zfp."""
import struct
from fractions import Fraction

import numpy as np

from . import codec, tlc

# fallback copy of SgzFormat!HeaderFields, replaced by TLC's on first oracle call
FIELDS = None

V_0_1_6 = (0, 1, 6, 1)
V_0_2_1 = (0, 2, 1, 1)


def decode_version(enc):
    """SgzVersion!Dec"""
    major = enc // (1024 * 2048)
    minor = (enc - major * 1024 * 2048) // 2048
    patch = (enc - major * 1024 * 2048 - minor * 2048) // 2
    rel = enc % 2          # 1 = release, 0 = development
    return (major, minor, patch, rel)


def parse_fields(hdr, fields):
    out = {}
    for f in fields:
        raw = hdr[f['lo']:f['hi']]
        out[f['name']] = struct.unpack('<i' if f['signed'] else '<I', raw)[0]
    return out


def trace_keys():
    import segyio
    return [int(k) for k in segyio.segy.Field(bytearray(240), kind='trace').keys()]


def parse_table(hdr):
    """89 rows of (field, constant, stored-as), overlaid on the 89 standard fields (all constant 0) in field
    order; rows that name no standard field (files older than the table) are ignored"""
    raw = hdr[980:2048]
    rows = [struct.unpack('<iii', raw[12 * i:12 * i + 12]) for i in range(89)]
    keys = trace_keys()
    table = {k: (0, 0) for k in keys}
    for k, c, m in rows:
        if k in table:
            table[k] = (c, m)
    return [(k, c, m) for k, (c, m) in table.items()]


def stored_keys(table):
    """Order in which arrays are stored: table order, a row (k, 0, m != 0) whose m has not been seen yet."""
    seen, stored, alias, const = set(), [], {}, {}
    for k, c, m in table:
        if c != 0 or m == 0:
            const[k] = c
            seen.add(k)
        elif m in seen:
            alias[k] = m
            seen.add(k)
        else:
            stored.append(k)
            seen.add(k)
    return stored, alias, const


def descriptor(path_or_bytes, fields):
    """Read the header and build the SgzFormat descriptor F (JSON-ready) + header values H."""
    if isinstance(path_or_bytes, (bytes, bytearray)):
        hdr = bytes(path_or_bytes[:8192])
    else:
        with open(path_or_bytes, 'rb') as f:
            hdr = f.read(8192)
    H = parse_fields(hdr, fields)
    ver = decode_version(H['version'])
    rate = codec.rate_of_code(H['bits_per_voxel'])
    b = [H['blockshape_il'], H['blockshape_xl'], H['blockshape_z']]
    if (b[0] == 0 or b[1] == 0) and b[2] == 0:       # files older than the blockshape fields
        b = [4, 4, int(2048 // rate)]
    dim = 2 if b[0] == 1 else 3
    padfoot = ver > V_0_2_1
    if dim == 3:
        n = [H['n_ilines'], H['n_xlines'], H['n_samples']]
        ntr = H['tracecount'] if padfoot else n[0] * n[1]
    else:
        ntr = H['tracecount']
        n = [1, ntr, H['n_samples']]
    dbl = struct.unpack('<d', hdr[92:100])[0]
    if dbl != 0:
        z0 = Fraction(struct.unpack('<d', hdr[84:92])[0])
        dz = Fraction(dbl) / 1000
    else:
        z0 = Fraction(H['min_sample'])
        dz = Fraction(H['sample_interval'])
        if ver > V_0_1_6 or dim == 2:
            dz = dz / 1000
    F = {'dim': dim, 'n': n, 'b': b, 'ub': codec.unit_bytes(rate, dim), 'hblk': H['n_header_blocks'],
         'padfoot': padfoot, 'narr': H['n_header_arrays'], 'ntr': ntr,
         'il': {'s': H['min_iline'], 'd': H['iline_interval']}, 'xl': {'s': H['min_xline'], 'd': H['xline_interval']},
         'zs': {'s': 0, 'd': 1}, 'mask': []}
    meta = {'H': H, 'ver': ver, 'rate': rate, 'z0': z0, 'dz': dz, 'table': parse_table(hdr), 'hdr': hdr,
            'hash': hdr[960:980].hex()}
    return F, meta


class RefFile:
    """Cell-by-cell decode of an SGZ file from TLC-emitted addresses."""

    def __init__(self, path, fields, oracle_file=None, F=None, meta=None):
        self.path = path
        if F is None:
            F, meta = descriptor(path, fields)
        self.F, self.meta = F, meta
        self.rate = meta['rate']
        self.layout = oracle_file
        self.vol = None
        with open(path, 'rb') as f:
            self.bytes = f.read()

    def load(self, layout):
        """layout = Gen_Api.OutFile(F) (addresses of all units in raster order of the padded unit grid)."""
        self.layout = layout
        F = self.F
        ub = F['ub']
        nu = layout['nu']
        data = self.bytes
        addr = np.asarray(layout['unit_addr'], dtype=np.int64)
        buf = np.frombuffer(data, dtype=np.uint8)
        need = int(addr.max()) + ub if len(addr) else 0
        if need > len(buf):
            raise ValueError(f'file shorter ({len(buf)}) than its last unit ({need})')
        idx = (addr[:, None] + np.arange(ub, dtype=np.int64)[None, :]).reshape(-1)
        stream = buf[idx].tobytes() + bytes(16)
        if F['dim'] == 3:
            shape = (nu[0] * 4, nu[1] * 4, nu[2] * 4)
            full = codec.decompress(stream, shape, self.rate)
            self.padded = full
            self.vol = full[:F['n'][0], :F['n'][1], :F['n'][2]]
        else:
            shape = (nu[1] * 4, nu[2] * 4)
            full = codec.decompress(stream, shape, self.rate)
            self.padded = full[None, :, :]
            self.vol = full[None, :F['n'][1], :F['n'][2]]
        return self

    def footer_array(self, k):
        off = self.layout['array_offsets'][k]
        n = self.layout['entry_bytes']
        raw = self.bytes[off:off + n]
        if len(raw) != n:
            raise ValueError('footer array beyond end of file')
        return np.frombuffer(raw, dtype='<i4')

    def select(self, alt):
        """Apply an SgzApi outcome (box / pairs) to the decoded real volume."""
        v = self.vol
        if alt['kind'] == 'box':
            il, xl, z = (np.asarray(alt[k], dtype=np.intp) for k in ('il', 'xl', 'z'))
            r = v[np.ix_(il, xl, z)]
            sq = tuple(i for i, s in enumerate(alt['sq']) if s)
            return r.reshape([d for i, d in enumerate(r.shape) if i not in sq]) if sq else r
        if alt['kind'] == 'pairs':
            z = np.asarray(alt['z'], dtype=np.intp)
            pos = alt['pos']
            out = np.zeros((len(pos), len(z)), dtype=np.float32)
            for k, (i, x) in enumerate(pos):
                out[k, :] = v[i, x, z]
            return out
        raise ValueError(alt['kind'])


def none(x):
    return tlc.NONE if x is None else x
