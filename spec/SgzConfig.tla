------------------------------ MODULE SgzConfig ------------------------------
(***************************************************************************)
(* utils.define_blockshape_2d/3d: resolution and validation of the         *)
(* (bits_per_voxel, blockshape) setting.  Rates are exact rationals        *)
(* <<num, den>>.  A bits argument is [str, n, d]: the number n/d, given as *)
(* a Python number or (str = TRUE) as a string.  A blockshape entry is an  *)
(* integer, -1 = "work it out".                                            *)
(* Outcome: Reject, or Accept(rate, shape).                                *)
(***************************************************************************)
EXTENDS Integers, Sequences

CONSTANT CBug          \* "none" | "novalidate" (spec-level mutant: the code before validation was added)

BlockBits == 32768     \* DISK_BLOCK_BYTES * 8
Reject == [ok |-> FALSE]
Accept(r, s) == [ok |-> TRUE, rate |-> r, shape |-> s]

IsPow2(n) == n \in {1, 2, 4, 8, 16, 32, 64, 128, 256, 512, 1024, 2048, 4096, 8192, 16384, 32768}
Rates == {<<1, 4>>, <<1, 2>>, <<1, 1>>, <<2, 1>>, <<4, 1>>, <<8, 1>>, <<16, 1>>, <<32, 1>>}

\* what the property calls a valid combination
Valid(dim, r, s) ==
    /\ r \in Rates
    /\ dim = 2 => r[2] = 1        \* a 4x4 float block cannot be coded in fewer than 9 bits: 2-D rates below 1 cannot be faithful
    /\ IF dim = 2 THEN s[1] = 1 ELSE (s[1] >= 4 /\ IsPow2(s[1]))
    /\ s[2] >= 4 /\ IsPow2(s[2]) /\ s[3] >= 4 /\ IsPow2(s[3])
    /\ s[1] * s[2] <= 131072 /\ s[1] * s[2] * s[3] <= 131072             \* (keeps TLC's 32-bit integers safe)
    /\ r[1] * s[1] * s[2] * s[3] = BlockBits * r[2]

Norm(q) == \* reduce n/d for the few denominators that occur
    IF q[1] % q[2] = 0 THEN <<q[1] \div q[2], 1>>
    ELSE IF q[2] % q[1] = 0 THEN <<1, q[2] \div q[1]>> ELSE q

Resolve(dim, bits, s) ==
    LET isFreeNum == ~bits.str /\ bits.n = -1 /\ bits.d = 1                \* counted by the "underdefined" test
        nfree == (IF s[1] = -1 THEN 1 ELSE 0) + (IF s[2] = -1 THEN 1 ELSE 0) + (IF s[3] = -1 THEN 1 ELSE 0)
                 + (IF isFreeNum THEN 1 ELSE 0)
        \* value after float() and the reciprocal rule: q = n/d; q < -1 -> 1/(-q)
        q0 == <<bits.n, bits.d>>
        q  == IF q0[1] < 0 /\ (0 - q0[1]) > q0[2] THEN <<q0[2], 0 - q0[1]>> ELSE q0
        isMinus1 == q[1] = -1 /\ q[2] = 1
        prod == s[1] * s[2] * s[3]
    IN  IF dim = 2 /\ s[1] # 1 THEN Reject                                 \* assert blockshape[0] == 1
        ELSE IF nfree > 1 THEN Reject                                      \* ValueError underdefined
        ELSE LET r == IF isMinus1 THEN (IF prod > 0 THEN Norm(<<BlockBits, prod>>) ELSE <<0, 1>>) ELSE q
                 fill(a, b) == IF r[1] > 0 /\ a > 0 /\ b > 0 THEN (BlockBits * r[2]) \div (a * b * r[1]) ELSE 0
                 sh == IF isMinus1 THEN s
                       ELSE IF s[1] = -1 THEN <<fill(s[2], s[3]), s[2], s[3]>>
                       ELSE IF s[2] = -1 THEN <<s[1], fill(s[1], s[3]), s[3]>>
                       ELSE IF s[3] = -1 THEN <<s[1], s[2], fill(s[1], s[2])>>
                       ELSE s
                 overdefinedOK == sh[1] * sh[2] <= 131072 /\ sh[1] * sh[2] * sh[3] <= 131072
                                  /\ r[1] * sh[1] * sh[2] * sh[3] = BlockBits * r[2]      \* the assert of the 4-given case
             IN  IF ~isMinus1 /\ s[1] # -1 /\ s[2] # -1 /\ s[3] # -1 /\ ~overdefinedOK THEN Reject
                 ELSE IF CBug = "novalidate" THEN (IF r[1] > 0 THEN Accept(r, sh) ELSE Reject)
                 ELSE IF Valid(dim, r, sh) THEN Accept(r, sh) ELSE Reject

\* C19: accepted => valid (and the resolution keeps what was given); valid & fully/consistently specified => accepted
Sound(dim, bits, s)    == LET o == Resolve(dim, bits, s) IN o.ok => Valid(dim, o.rate, o.shape)
Keeps(dim, bits, s)    == LET o == Resolve(dim, bits, s)
                          IN  o.ok => \A a \in 1..3 : s[a] # -1 => o.shape[a] = s[a]
=============================================================================
