"""C17 I/O failures are reported: for every call, every position of its range-read sequence (as SgzReader!Call
predicts it and as measured) x {exception, short read, empty read}, plus pairs; local and blob backends; blob with
prescribed completion orders.  The call must raise if a fault was delivered, else return the true data."""
import itertools
import os
import threading
import time

import numpy as np

from .. import codec, env, inputs, par, readcalls, session, writers
from ..backends import CountingFile, FakeBlob
from . import c02

FINISH = dict(
    level='model_checking',
    rule='TLC gives, for each call on the real file, the modelled range-read sequence (validated against the measured one); '
         'faults are injected at every position x kind (+ seeded pairs) on local and blob backends, and blob requests are released in '
         'every permutation (<= 4 concurrent) / seeded permutations; non-trivial = distinct (file, backend, call, fault set | order) '
         'where the fault was actually delivered or the order is not the arrival order',
    assumptions=['an exception of any class counts as "raises"; calls run in worker processes, a crashed worker is a violation'],
    trusted=['zfpy', 'numpy', 'TLC'])

KINDS = ('exc', 'short', 'empty')
HDR_KINDS = ('exc', 'short', 'short4', 'empty')


class OrderedBlob(FakeBlob):
    """releases concurrent readall() calls in a prescribed permutation of their arrival ordinals (within a window)"""

    def __init__(self, data, name, perm):
        super().__init__(data, name)
        self.perm = list(perm)
        self.cv = threading.Condition()
        self.released = 0
        self.base = None

    def arm(self):
        with self.lock:
            self.base = self.count
        with self.cv:
            self.released = 0

    def download_blob(self, offset=0, length=None):
        with self.lock:
            k = self.count
            self.count += 1
            self.log.append((offset, length, None))
        data = self.data

        class D:
            def readall(s):
                if self.base is not None:
                    rel = k - self.base
                    if 0 <= rel < len(self.perm):
                        turn = self.perm.index(rel)
                        with self.cv:
                            t0 = time.time()
                            while self.released < turn and time.time() - t0 < 0.25:
                                self.cv.wait(0.02)
                            self.released = max(self.released, turn + 1)
                            self.cv.notify_all()
                return data[offset:offset + length]
        return D()


def sample_calls(fc, rng, quick):
    """one or two in-range calls per read method"""
    F = fc.F
    ni, nx, nz = F['n']
    N = readcalls.NONE
    if F['dim'] == 2:
        c = [('get_trace', [min(1, nx - 1), N, N]), ('get_trace', [nx - 1, 1, min(nz, 7)]), ('read_subplane', [0, min(nx, 6), 1, min(nz, 9)]),
             ('gen_trace_header', [1])]
        return c + header_calls(fc)
    tc = readcalls.tracecount(F)
    c = [('read_inline', [ni - 1]), ('read_crossline', [1]), ('read_zslice', [min(5, nz - 1)]),
         ('read_subvolume', [1, min(ni, 6), 0, min(nx, 5), 2, min(nz, 70)]), ('get_trace', [tc - 1, N, N]),
         ('get_trace', [1, 2, min(nz, 9)]), ('read_correlated_diagonal', [0, N, N, N, N]),
         ('read_anticorrelated_diagonal', [min(ni, nx), N, N, N, N]), ('gen_trace_header', [min(3, tc - 1)]),
         ('read_inline_number', [F['il']['s']]), ('get_trace_by_coord', [0, 2, 2 * min(nz, 6)])]
    if not quick:
        c += [('read_volume', []), ('read_crossline', [nx - 1]), ('read_zslice', [0]), ('read_inline', [0])]
    return c + header_calls(fc)


def header_calls(fc):
    """whole-array header reads: one stored word through get_tracefield_values, all of them through read_variant_headers,
    one through the emulator's attributes()"""
    if not fc.stored:
        return []
    k = int(fc.stored[len(fc.stored) // 2])
    return [('hdr:tracefield', [k]), ('hdr:variant', []), ('hdr:attributes', [int(fc.stored[0])])]


def expected_header(fc, op, a):
    if op == 'hdr:variant':
        return {int(k): fc.ref.footer_array(i).astype(np.int64) for i, k in enumerate(fc.stored)}
    return fc.ref.footer_array(fc.stored.index(a[0])).astype(np.int64)


def invoke(r, op, a, fc):
    if not op.startswith('hdr:'):
        return readcalls.invoke(r, op, a)
    try:
        if op == 'hdr:tracefield':
            return ('hdrvalue', np.asarray(r.get_tracefield_values(a[0])).astype(np.int64).reshape(-1))
        if op == 'hdr:attributes':
            return ('hdrvalue', np.asarray(r.get_tracefield_1d(a[0])).astype(np.int64).reshape(-1))
        r.read_variant_headers(include_padding=True)
        return ('hdrvalue', {int(k): np.asarray(v).astype(np.int64).reshape(-1) for k, v in r.variant_headers.items()})
    except BaseException as e:
        if isinstance(e, (KeyboardInterrupt, SystemExit, MemoryError)):
            raise
        return ('raise', type(e).__name__, [c.__name__ for c in type(e).__mro__])


def fresh(fc, backend, faults=None):
    from seismic_zfp.read import SgzReader
    data = fc.ref.bytes
    h = CountingFile(data, name=fc.path) if backend == 'local' else FakeBlob(data, name=fc.path)
    with env.quiet():
        r = SgzReader(h)
    h.take()
    h.count = 0
    h.faults = dict(faults or {})
    h.delivered = []
    return r, h


def judge(fc, out, ans, delivered, op=None, a=None):
    """property-level verdict for one faulted call"""
    if op is not None and op.startswith('hdr:'):
        if out[0] == 'raise':
            return bool(delivered) or False, 'raise ' + out[1]
        exp = expected_header(fc, op, a)
        if isinstance(exp, dict):
            same = isinstance(out[1], dict) and all(k in out[1] and np.array_equal(out[1][k], v) for k, v in exp.items())
        else:
            same = not isinstance(out[1], dict) and np.array_equal(out[1], exp)
        if delivered:
            return False, 'returned ' + ('the true arrays' if same else 'truncated / wrong header arrays')
        return same, 'header arrays'
    grid = [x for x in ans['alts'] if x['kind'] == 'header']
    same, detail = readcalls.compare(out, ans['alts'], fc.ref, header_of=(lambda t: fc.header(grid[0]['grid'])) if grid else None)
    if delivered:
        return out[0] == 'raise', ('returned ' + detail if out[0] != 'raise' else 'raise')
    return same, detail


def later_calls(fc, backend, faults, op, a):
    """What a reader answers AFTER one of its header loads met a fault: on a second reader given the same faults, the faulted call, then
    (storage healthy) headers and traces near the end of the file.  Each must raise or be what a reader that never met a fault returns -
    a load that failed half way must not leave arrays behind that later calls mix with arrays loaded differently.  -> (ok, detail) | None"""
    if not op.startswith('hdr:') or not fc.stored:
        return None
    tc = readcalls.tracecount(fc.F)
    mask = fc.F.get('mask') or []
    # every stored trace from the first hole on (a padded array and a hole-filtered one agree wherever the line number happens to repeat)
    probes = list(range(list(mask).index(0), tc))[:40] if 0 in mask else sorted({tc - 1, max(0, tc - 2), min(tc - 1, 1)})

    def ask(r):
        out = []
        for t in probes:
            o = readcalls.invoke(r, 'gen_trace_header', [t])
            out.append(o if o[0] != 'header' else ('header', sorted(o[1].items())))
        o = readcalls.invoke(r, 'get_trace', [tc - 1, readcalls.NONE, readcalls.NONE])
        out.append(o if o[0] == 'raise' else ('value', o[1].tobytes()))
        return out
    r0, h0 = fresh(fc, backend, {})
    r1, h1 = fresh(fc, backend, faults)
    try:
        with env.quiet():
            want = ask(r0)
            invoke(r1, op, a, fc)
            if not h1.delivered:
                return None
            h1.faults = {}
            got = ask(r1)
    finally:
        for r in (r0, r1):
            try:
                with env.quiet():
                    r.close()
            except Exception:
                pass
    names = [f'gen_trace_header({t})' for t in probes] + [f'get_trace({tc - 1})']
    bad = [n for n, g, w in zip(names, got, want) if g[0] != 'raise' and g != w]
    return (not bad), (f'after the faulted {op}: {bad} differ from a reader that met no fault' if bad else 'raise or true')


def _fault_worker(item):
    fi, backend, ci, faults = item
    fc, calls, answers = par.G['files'][fi]
    op, a = calls[ci]
    try:
        r, h = fresh(fc, backend, faults)
        with env.quiet():
            out = invoke(r, op, a, fc)
        delivered = list(h.delivered)
        # the same call again on the same reader, storage healthy now (the retry after a transient error): the true data
        retry = None
        if delivered:
            h.faults = {}
            h.delivered = []
            if backend == 'local':
                h.jitter = 0.001        # (threads the failed call may have left behind get their chance between this call's seeks and reads)
            with env.quiet():
                out2 = invoke(r, op, a, fc)
            h.jitter = 0.0
            retry = judge(fc, out2, answers[ci], [], op, a)
        later = later_calls(fc, backend, faults, op, a) if delivered else None
        with env.quiet():
            try:
                r.close()
            except Exception:
                pass
    except BaseException as e:        # the open itself is fault free; anything here is a harness problem
        return item, None, f'harness: {type(e).__name__}: {e}', []
    ok, detail = judge(fc, out, answers[ci], delivered, op, a)
    return item, ok, detail, delivered, retry, later


def wide_slices(run):
    """a default-layout cube whose z-slice takes several hundred range reads (more than one batch of any batched fan-out)"""
    from .. import writers
    d = env.subdir('c17w')
    p = os.path.join(d, 'wide.sgz')
    writers.numpy_to_sgz(p, inputs.cube((68, 68, 8), run.seed + 91), 32, (4, 4, -1))
    return [session.FileCase(p, label='numpy(68, 68, 8)r32b(4, 4, -1) 289 units per z-slice')]


def run(run):
    rng = np.random.default_rng(run.seed)
    quick = run.tier == 'quick'
    run.mc('MC_Reader', f'MC_Reader_C07_{run.tier}' if not quick else 'MC_Reader_C17_quick')
    fx = inputs.fixture_sgz()
    keep = ('small_8bit.', 'small_hole', 'small_8bit-8x8', 'small-2d') if quick else \
        ('small_8bit.', 'small-irregular', 'small_hole', 'small_8bit-8x8', 'small-2d', 'small_2bit-64x64', 'small_4bit', 'padding_6x7')
    fx = [f for f in fx if any(k in f for k in keep)]
    adv = [c for c in c02.written_files(run, 'quick') if 'b(16, 16, 4)' in c.label]
    cases = session.load_files([session.FileCase(p) for p in fx] + adv + c02.written_2d(run, 'quick')[:1] + wide_slices(run), run)
    files, items = [], []
    for fi, fc in enumerate(cases):
        calls = sample_calls(fc, rng, quick)
        answers = session.eval_calls([fc], [(0, op, a) if not op.startswith('hdr:') else (0, 'read_volume' if fc.F['dim'] == 3 else 'get_trace', [] if fc.F['dim'] == 3 else [0, readcalls.NONE, readcalls.NONE]) for op, a in calls], run)
        files.append((fc, calls, answers))
        for backend in ('local', 'blob'):
            for ci, (op, a) in enumerate(calls):
                # measure the fault-free read sequence and validate it against the model's
                r, h = fresh(fc, backend)
                with env.quiet():
                    out = invoke(r, op, a, fc)
                    reads = h.take()
                    r.close()
                ok, detail = judge(fc, out, answers[ci], [], op, a)
                case = {'file': fc.label, 'backend': backend, 'op': op, 'args': a, 'faults': {}}
                run.case(case, nontrivial=False)
                run.check(ok, f'C17.fault-free-true[{op}]', case, detail, 'ideal')
                mk = answers[ci]['model']
                if mk['kind'] == 'value' and not op.startswith('hdr:'):
                    hb = fc.F['hblk'] * 4096
                    got = sorted((o - hb, n) for o, n, _ in reads if o < hb + fc.layout['data_blocks'] * 4096)
                    if got == sorted(tuple(x) for x in mk['reads']):
                        run.traces_validated += 1
                    else:
                        run.drift(f'{fc.label} {op}{a}: reads code {got[:3]} model {mk["reads"][:3]}')
                n = len(reads)
                pos = list(range(n))
                if n > (12 if quick else 40):
                    pos = sorted(set([0, 1, n - 1, n - 2] + rng.choice(n, size=8 if quick else 30, replace=False).tolist()))
                for k in pos:
                    for kind in (HDR_KINDS if op.startswith('hdr:') else KINDS):
                        items.append((fi, backend, ci, {k: kind}))
                # pairs of faults (second fault never reached when the first one surfaces - both must still end in raise)
                for _ in range(2 if quick else 8):
                    if n >= 2:
                        k1, k2 = sorted(rng.choice(n, size=2, replace=False).tolist())
                        items.append((fi, backend, ci, {k1: KINDS[int(rng.integers(3))], k2: KINDS[int(rng.integers(3))]}))
    par.G['files'] = files
    for item, res in zip(items, par.pmap(_fault_worker, items)):
        retry = None
        if isinstance(res, par.Crash):
            ok, detail, delivered = False, f'worker process died ({res})', [(0, 'crash')]
        else:
            _, ok, detail, delivered = res[:4]
            retry = res[4] if len(res) > 4 else None
        fi, backend, ci, faults = item
        fc, calls, answers = files[fi]
        op, a = calls[ci]
        case = {'file': fc.label, 'backend': backend, 'op': op, 'args': a, 'faults': {str(k): v for k, v in faults.items()}}
        if ok is None:
            run.machinery(detail)
            continue
        run.case(case, nontrivial=bool(delivered))
        if delivered:
            run.check(ok, f'C17.fault-surfaces[{op}]', dict(case, kinds=sorted(set(faults.values()))), detail, 'raises')
            if retry is not None:
                run.check(retry[0], f'C17.retry-after-fault[{op}]', dict(case, kinds=sorted(set(faults.values()))), retry[1], 'the true data once the storage is healthy')
            later = res[5] if (not isinstance(res, par.Crash) and len(res) > 5) else None
            if later is not None:
                run.check(later[0], f'C17.later-calls-after-fault[{op}]', dict(case, kinds=sorted(set(faults.values()))), later[1], 'raise, or what a reader that met no fault returns')
        else:
            run.check(ok, f'C17.no-fault-true[{op}]', case, detail, 'ideal')
    # ---- completion orders of the concurrent blob reads
    for fi, (fc, calls, answers) in enumerate(files):
        from seismic_zfp.read import SgzReader
        for ci, (op, a) in enumerate(calls):
            if op not in ('read_crossline', 'read_zslice', 'read_subvolume', 'read_volume'):
                continue
            r, h = fresh(fc, 'blob')
            with env.quiet():
                readcalls.invoke(r, op, a)
            n = min(len(h.take()), 20)
            if n < 2:
                continue
            if n <= 4:
                perms = list(itertools.permutations(range(n)))
            else:
                perms = [tuple(reversed(range(n)))] + [tuple(rng.permutation(n).tolist()) for _ in range(3 if quick else 12)]
            for perm in perms:
                ob = OrderedBlob(fc.ref.bytes, fc.path, perm)
                with env.quiet():
                    rr = SgzReader(ob)
                    ob.arm()
                    out = readcalls.invoke(rr, op, a)
                ok, detail = judge(fc, out, answers[ci], [])
                case = {'file': fc.label, 'backend': 'blob', 'op': op, 'args': a, 'order': list(perm)}
                run.case(case, nontrivial=list(perm) != sorted(perm))
                run.check(ok, f'C17.any-completion-order[{op}]', case, detail, 'ideal')
    big_blob(run)


def big_blob(run, only=None):
    """range reads above 4 MiB on the remote backend (an inline set of a wide survey; preload of the whole data section): a download that
    comes back short, empty or failing must surface however the client splits or retries the request"""
    from seismic_zfp.read import SgzReader
    d = env.subdir('c17big')
    p = os.path.join(d, 'wide.sgz')
    shape = (4, 1024, 640)
    cube = inputs.cube(shape, run.seed + 77, 'smooth')
    writers.numpy_to_sgz(p, cube, 16, (4, 4, -1))
    with open(p, 'rb') as f:
        data = f.read()
    with env.quiet():
        with SgzReader(p) as r0:
            ideal = r0.read_inline(1)
    for preload in (False, True):
        # how many requests the fault-free call makes (after / during open)
        h = FakeBlob(data, name=p)
        with env.quiet():
            r = SgzReader(h, preload=preload)
        n_open = h.count
        with env.quiet():
            r.read_inline(1)
        n_all = h.count
        first = 0 if preload else n_open
        for k in range(first, n_all):
            for kind in KINDS + ('short512',):
                case = {'file': 'wide(4, 1024, 640)r16', 'backend': 'blob', 'op': 'read_inline', 'args': [1], 'preload': preload, 'faults': {str(k): kind}}
                if only is not None and only != case:
                    continue
                run.case(case)
                h = FakeBlob(data, name=p, faults={k: kind})
                try:
                    with env.quiet():
                        r = SgzReader(h, preload=preload)
                        out = r.read_inline(1)
                    delivered = list(h.delivered)
                    if delivered:
                        run.fail('C17.fault-surfaces[large-range]', case, 'returned ' + ('the true data' if codec.same_bits(out, ideal) else 'wrong samples'), 'an exception')
                    else:
                        run.check(codec.same_bits(out, ideal), 'C17.fault-free-true[large-range]', case, None, 'ideal')
                except BaseException as e:
                    if isinstance(e, (KeyboardInterrupt, SystemExit, MemoryError)):
                        raise
                    run.check(bool(h.delivered), 'C17.fault-surfaces[large-range]', case, f'raise {type(e).__name__} without a delivered fault', 'value')
    os.remove(p)


def replay(run, rep):
    if rep['case'].get('file', '').startswith('wide('):
        big_blob(run, only=rep['case'])
        return
    case = rep['case']
    fx = [p for p in inputs.fixture_sgz() if p.endswith('/' + case['file'])]
    if fx:
        fc = session.load_files([session.FileCase(fx[0])], run)[0]
    else:
        pool = c02.written_files(run, 'quick') + c02.written_2d(run, 'quick') + wide_slices(run)
        fc = [c for c in session.load_files(pool, run) if c.label == case['file']][0]
    hdr = case['op'].startswith('hdr:')
    ans = session.eval_calls([fc], [(0, case['op'], case['args'])], run)[0] if not hdr else None
    if 'order' in case:
        from seismic_zfp.read import SgzReader
        ob = OrderedBlob(fc.ref.bytes, fc.path, case['order'])
        with env.quiet():
            rr = SgzReader(ob)
            ob.arm()
            out = readcalls.invoke(rr, case['op'], case['args'])
        ok, detail = judge(fc, out, ans, [])
    else:
        r, h = fresh(fc, case['backend'], {int(k): v for k, v in case['faults'].items()})
        with env.quiet():
            out = invoke(r, case['op'], case['args'], fc)
        ok, detail = judge(fc, out, ans, list(h.delivered), case['op'], case['args'])
        if rep['clause'].startswith('C17.later-calls-after-fault'):
            ok, detail = later_calls(fc, case['backend'], {int(k): v for k, v in case['faults'].items()}, case['op'], case['args']) or (True, 'no fault delivered')
        if rep['clause'].startswith('C17.retry-after-fault'):
            h.faults = {}
            h.delivered = []
            if case['backend'] == 'local':
                h.jitter = 0.001
            with env.quiet():
                out = invoke(r, case['op'], case['args'], fc)
            h.jitter = 0.0
            ok, detail = judge(fc, out, ans, [], case['op'], case['args'])
    run.check(ok, rep['clause'], case, detail, None)
