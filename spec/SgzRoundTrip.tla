--------------------------- MODULE SgzRoundTrip ---------------------------
(***************************************************************************)
(* C06 / C04 for REGULAR sources, in terms of source FILE ordinals: what   *)
(* a SEG-Y -> SGZ -> SEG-Y round trip does to the order of traces.         *)
(* SgzIngest!WindowedS says which file trace supplies the samples and the  *)
(* header of every cell of the cube (either sorting, any ordinal window);  *)
(* the export (conversion.py convert_to_segy / write_segy) walks the cube  *)
(* inline-major and writes, for ordinal k, the samples of cell k and the   *)
(* header regenerated from footer cell k.  So the exported file is always  *)
(* inline sorted; it is the source's own order iff the source was inline   *)
(* sorted, and a permutation of it (by cube position) otherwise - but a    *)
(* trace never parts from its header.                                      *)
(***************************************************************************)
EXTENDS SgzIngest

\* exported trace k (1-based): <<file ordinal of its samples, file ordinal of its header>>
Exported(NI, NX, w, srt, pad) ==
    LET W == WindowedS(NI, NX, w, srt)
    IN  [k \in 1..(W.ni * W.nx) |->
            <<W.data[(k - 1) \div W.nx][(k - 1) % W.nx], ReadCell(W, pad, 0, k - 1).cell>>]

\* every exported trace is one source trace with its own header ...
HeaderStaysWithTrace(NI, NX, w, srt, pad) ==
    LET E == Exported(NI, NX, w, srt, pad)
        W == WindowedS(NI, NX, w, srt)
    IN  \A k \in DOMAIN E : /\ E[k][1] = E[k][2] /\ E[k][1] \in 1..(NI * NX)
                             \* and so for a second stored header word (the reader's footer stride against the writer's)
                             /\ ReadCell(W, pad, 1, k - 1) = [arr |-> 1, cell |-> E[k][1]]
\* ... each source trace of the window exactly once, at the ordinal of its cube position
ByPosition(NI, NX, w, srt, pad) ==
    LET E == Exported(NI, NX, w, srt, pad)
        e == Eff(NI, NX, w)
    IN  /\ \A k, j \in DOMAIN E : k # j => E[k][1] # E[j][1]
        /\ \A p \in 0..(e[2] - e[1] - 1), q \in 0..(e[4] - e[3] - 1) :
              E[p * (e[4] - e[3]) + q + 1][1] = FileOrd(NI, NX, srt, e[1] + p, e[3] + q)
\* the source's own file order is kept exactly for an inline-sorted source converted whole
OrderKept(NI, NX, srt, pad) ==
    LET E == Exported(NI, NX, <<None, None, None, None>>, srt, pad)
    IN  (srt = "il") <=> (\A k \in DOMAIN E : E[k][1] = k) \/ NI = 1 \/ NX = 1
=============================================================================
