"""Execution environment: package resolution, shadow version, scratch directories, silencing."""
import atexit
import contextlib
import io
import os
import shutil
import sys
import tempfile
import threading
import warnings

VERIF = os.path.dirname(os.path.dirname(os.path.dirname(os.path.abspath(__file__))))
SPEC = os.path.join(VERIF, 'spec')
SHADOW = os.path.join(VERIF, 'shadow')
REPO = os.environ.get('VERIF_REPO', '/repo')
SEED = int(os.environ.get('VERIF_SEED', '0') or 0)

_scratch = None


def activate():
    """Make `import seismic_zfp` resolve to REPO's working tree, presented as a released install.

    The editable install reports 0.1.dev1+g<sha> (no git tags in the sandbox); a library with that
    metadata stamps files as older than every format gate, so write paths are judged under a shadow
    dist-info that says 0.2.9 while the code is imported from REPO (DESIGN section 6)."""
    for p in (REPO, SHADOW):
        if p in sys.path:
            sys.path.remove(p)
        sys.path.insert(0, p)
    os.environ['PYTHONPATH'] = SHADOW + os.pathsep + REPO + os.pathsep + os.path.join(VERIF, 'harness')
    warnings.filterwarnings('ignore')
    os.environ.setdefault('PYTHONWARNINGS', 'ignore')
    import seismic_zfp  # noqa
    got = os.path.dirname(os.path.abspath(seismic_zfp.__file__))
    want = os.path.join(os.path.abspath(REPO), 'seismic_zfp')
    if got != want:
        raise RuntimeError(f'seismic_zfp resolved to {got}, expected {want}')
    with quiet():
        import pkg_resources
        v = pkg_resources.get_distribution('seismic_zfp').version
    if v != '0.2.9':
        raise RuntimeError(f'shadow version not active: {v}')


def scratch():
    """Per-process scratch directory outside /repo and /verif, removed at exit."""
    global _scratch
    if _scratch is None or not os.path.isdir(_scratch):
        base = os.environ.get('VZ_SCRATCH_BASE') or tempfile.gettempdir()
        _scratch = tempfile.mkdtemp(prefix='vz-', dir=base)
        atexit.register(shutil.rmtree, _scratch, True)
    return _scratch


def subdir(name):
    d = os.path.join(scratch(), name)
    os.makedirs(d, exist_ok=True)
    return d


_tl = threading.local()
_quiet_main = [0]


class _Router(io.TextIOBase):
    """sys.stdout / sys.stderr for the whole run: what a thread writes while it is inside quiet() - or what any other thread writes while
    the MAIN thread is inside quiet() (the library's worker threads) - is dropped; everything else reaches the real stream.  Swapping
    sys.stdout itself is not safe here: a conversion thread that outlives the block that started it (a hung pipeline under test) would
    put a dead buffer back and the verdict lines of the check would be lost."""

    def __init__(self, real):
        self.real = real

    def write(self, s):
        if getattr(_tl, 'depth', 0) > 0 or (_quiet_main[0] > 0 and threading.current_thread() is not threading.main_thread()):
            return len(s)
        return self.real.write(s)

    def flush(self):
        try:
            self.real.flush()
        except Exception:
            pass

    def fileno(self):
        return self.real.fileno()

    def isatty(self):
        return False

    @property
    def encoding(self):
        return getattr(self.real, 'encoding', 'utf-8')


if not isinstance(sys.stdout, _Router):
    sys.stdout, sys.stderr = _Router(sys.stdout), _Router(sys.stderr)


@contextlib.contextmanager
def quiet():
    """Silence the library's progress prints and warnings (per thread; see _Router)."""
    is_main = threading.current_thread() is threading.main_thread()
    _tl.depth = getattr(_tl, 'depth', 0) + 1
    if is_main:
        _quiet_main[0] += 1
    try:
        with warnings.catch_warnings():
            warnings.simplefilter('ignore')
            yield
    finally:
        _tl.depth -= 1
        if is_main:
            _quiet_main[0] -= 1
