----------------------------- MODULE SgzVersion -----------------------------
(***************************************************************************)
(* The version field (header bytes 72-75): version.py.                     *)
(* A version is <<major, minor, patch, rel>> with rel = 1 for a release    *)
(* and 0 for a development build of it (which sorts before the release).   *)
(* RMinor, RPatch are the radices (1024, 1024 in the code).                *)
(***************************************************************************)
EXTENDS Integers

CONSTANTS RMajor, RMinor, RPatch

Versions == (0..(RMajor-1)) \X (0..(RMinor-1)) \X (0..(RPatch-1)) \X {0, 1}

Enc(v) == RMinor * RPatch * 2 * v[1] + RPatch * 2 * v[2] + 2 * v[3] + v[4]       \* to_encoding
Dec(e) == LET ma == e \div (RMinor * RPatch * 2)                                  \* __init__(int)
              mi == (e - ma * RMinor * RPatch * 2) \div (RPatch * 2)
              pa == (e - ma * RMinor * RPatch * 2 - mi * RPatch * 2) \div 2
          IN  <<ma, mi, pa, e % 2>>

\* release order: lexicographic on (major, minor, patch), development build before its release
Less(v, w) == \/ v[1] < w[1]
              \/ v[1] = w[1] /\ v[2] < w[2]
              \/ v[1] = w[1] /\ v[2] = w[2] /\ v[3] < w[3]
              \/ v[1] = w[1] /\ v[2] = w[2] /\ v[3] = w[3] /\ v[4] < w[4]

RoundTrip(v)   == Dec(Enc(v)) = v
Monotone(v, w) == Less(v, w) <=> Enc(v) < Enc(w)
InRange(v)     == 0 <= Enc(v) /\ Enc(v) < RMajor * RMinor * RPatch * 2

\* the format gates the reader applies (read.py:160, 323)
V_0_1_6 == <<0, 1, 6, 1>>
V_0_2_1 == <<0, 2, 1, 1>>
PaddedFooter(v)   == Less(V_0_2_1, v)       \* also: trace-count field is valid
MicrosecondDt(v)  == Less(V_0_1_6, v)
=============================================================================
