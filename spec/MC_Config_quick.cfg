CONSTANT CBug = "none"
CONSTANT Tier = "quick"
SPECIFICATION Spec
INVARIANT SoundInv
INVARIANT AcceptsValid
CHECK_DEADLOCK FALSE
