"""C05 geometry preservation: line axes, sample axis, trace count and structured flag of the SGZ equal the source's.

TLC (MC_Geometry over SgzGeometry) checks every axis triple at word width W through the writer's signed pack / the reader's
unsigned read + wide arithmetic + wrap, both version gates, and the crop transform.  TLC (Gen_Geometry) enumerates all
triples of the model word; the harness maps each to 32 bits by the scalings v -> v and v -> v * 2^(32-W) (the second commutes
with the wrap, so model words and real words correspond one to one and are compared), writes real files by the NumPy and
SEG-Y routes and reads the axes back.  What the integer model cannot see - float rounding of the sample interval - is
enumerated for real: every interval 1..65535 us (thorough; stratified in quick) x start times at the extremes."""
import os
import struct

import numpy as np
import segyio

from .. import env, inputs, par, tlc, writers

FINISH = dict(
    level='model_checking',
    rule='line axes: all (start, step != 0, count 2..5) triples of a 5-bit (quick) / 6-bit (thorough) word enumerated by TLC, each mapped to '
         '32 bits by x1 and x2^(32-W), paired as inline/crossline axes, written by the NumPy route (and a SEG-Y subset) and read back; '
         'sample axis: intervals 1..65535 us (all in thorough, stratified in quick) x starts {-32768,-1,0,8,32767} ms x sample counts, '
         'NumPy route + SEG-Y subset + 2-D; after crop / re-block / export on a subset; fixtures of every format version against their '
         'SEG-Y sources; non-trivial = distinct (axis pair, scale, route) or (interval, start, count, route)',
    assumptions=['sample times compare within 1e-9 relative (float rounding of start + i*interval)'],
    trusted=['segyio', 'numpy', 'TLC'])

WQ, WT = 5, 6


def real_axis(t, K):
    return (np.int64(t['start']) + np.int64(t['step']) * np.arange(t['count'], dtype=np.int64)) * np.int64(K)


def _read_geom(p):
    from seismic_zfp.read import SgzReader
    import seismic_zfp
    with open(p, 'rb') as f:
        hdr = f.read(64)
    words = {'xl_start': struct.unpack('<I', hdr[20:24])[0], 'il_start': struct.unpack('<I', hdr[24:28])[0],
             'dz': struct.unpack('<I', hdr[28:32])[0], 'xl_step': struct.unpack('<I', hdr[32:36])[0],
             'il_step': struct.unpack('<I', hdr[36:40])[0], 'z0': struct.unpack('<I', hdr[16:20])[0]}
    with env.quiet():
        with SgzReader(p) as r:
            g = {'il': np.asarray(r.ilines).astype(np.int64).tolist() if r.is_3d else None,
                 'xl': np.asarray(r.xlines).astype(np.int64).tolist() if r.is_3d else None,
                 'z': np.asarray(r.zslices, dtype=np.float64).tolist(), 'ntr': int(r.tracecount), 'structured': bool(r.structured)}
        with seismic_zfp.open(p) as e:
            g['emu_il'] = np.asarray(e.ilines).astype(np.int64).tolist() if r.is_3d else None
            g['emu_xl'] = np.asarray(e.xlines).astype(np.int64).tolist() if r.is_3d else None
            g['emu_z'] = np.asarray(e.samples, dtype=np.float64).tolist()
            g['emu_ntr'] = int(e.tracecount)
    return g, words


def _axis_worker(item):
    ci, c = item
    d = env.subdir(f'c05-{os.getpid()}')
    p = os.path.join(d, f'a{ci}.sgz')
    try:
        il, xl = real_axis(c['il'], c['K']), real_axis(c['xl'], c['K'])
        cube = inputs.cube((len(il), len(xl), 4), par.G['seed'] + ci)
        if c['route'] == 'numpy':
            dt = np.int64 if ci % 2 else np.intc
            rate, bs = c.get('setting') or (32, (4, 4, -1))
            writers.numpy_to_sgz(p, cube, rate, tuple(bs), ilines=il.astype(dt), xlines=xl.astype(dt), samples=np.arange(4) * 4.0)
        else:
            sgy = p + '.sgy'
            inputs.write_segy(sgy, cube, il, xl, np.arange(4) * 4.0, sorting=('il', 'xl')[(ci // 3) % 2])       # inline- or crossline-sorted file
            with segyio.open(sgy, strict=False) as s:
                assert np.array_equal(np.asarray(s.ilines, dtype=np.int64), il) and np.array_equal(np.asarray(s.xlines, dtype=np.int64), xl)
            writers.segy_to_sgz(sgy, p, 32, None, reduce_iops=bool(ci % 2))
            os.remove(sgy)
        g, words = _read_geom(p)
        out = {'g': g, 'words': words, 'il': il.tolist(), 'xl': xl.tolist()}
        if c.get('reblock'):        # the same axes after re-blocking to the z-slice layout (needs a 2-bit default-layout file)
            from seismic_zfp.conversion import SgzConverter
            src2, q2 = p + '.2bit.sgz', p + '.adv.sgz'
            writers.numpy_to_sgz(src2, cube, 2, (4, 4, -1), ilines=il.astype(np.int64), xlines=xl.astype(np.int64), samples=np.arange(4) * 4.0)
            with env.quiet():
                with SgzConverter(src2) as cv:
                    cv.convert_to_adv_sgz(q2)
            out['reblock'] = {'g': _read_geom(q2)[0]}
            os.remove(src2)
            os.remove(q2)
        if c.get('from_header'):    # NumPy route: axes taken from supplied INLINE_3D / CROSSLINE_3D header arrays
            q3 = p + '.hdr.sgz'
            th = {int(segyio.TraceField.INLINE_3D): np.broadcast_to(il[:, None], (len(il), len(xl))).astype(np.int64),
                  int(segyio.TraceField.CROSSLINE_3D): np.broadcast_to(xl[None, :], (len(il), len(xl))).astype(np.int32)}
            writers.numpy_to_sgz(q3, cube, 32, (4, 4, -1), samples=np.arange(4) * 4.0, trace_headers=th)
            out['from_header'] = {'g': _read_geom(q3)[0]}
            os.remove(q3)
        if c.get('crop'):
            from seismic_zfp.cropping import SgzCropper
            from seismic_zfp.conversion import SgzConverter
            q = p + '.crop.sgz'
            lo = c['crop']
            with env.quiet():
                with SgzCropper(p) as cr:
                    cr.write_cropped_file_by_indexes(q, (lo, len(il)), None, None)
            a0 = (lo // (c.get('setting') or (32, (4, 4, -1)))[1][0]) * (c.get('setting') or (32, (4, 4, -1)))[1][0]
            out['crop'] = {'g': _read_geom(q)[0], 'il': il[a0:].tolist(), 'xl': xl.tolist()}
            os.remove(q)
        return out
    except BaseException as e:
        if isinstance(e, (KeyboardInterrupt, SystemExit, MemoryError)):
            raise
        return {'error': f'{type(e).__name__}: {e}'}
    finally:
        if os.path.exists(p):
            os.remove(p)


def _z_worker(item):
    ci, c = item
    d = env.subdir(f'c05z-{os.getpid()}')
    p = os.path.join(d, f'z{ci}.sgz')
    try:
        I, S, nz = c['I'], c['S'], c['nz']
        samples = S + (I / 1000.0) * np.arange(nz)
        exp = [S + k * I / 1000.0 for k in range(nz)]
        if c['route'] == 'numpy':
            writers.numpy_to_sgz(p, inputs.cube((2, 3, nz), ci), 32 if nz <= 64 else 16, (4, 4, -1), samples=samples)
        elif c['route'] == 'numpy-crop2':
            # two vertical crops in a row on the z-slice layout (4-sample blocks): the first may start between whole milliseconds
            # (the float64 sample-axis fields come into use), the second on or off one
            from seismic_zfp.cropping import SgzCropper
            nzz = 24
            samples = S + (I / 1000.0) * np.arange(nzz)
            writers.numpy_to_sgz(p + '.src', inputs.cube((5, 6, nzz), ci), 32, (16, 16, 4), samples=samples)
            with env.quiet():
                with SgzCropper(p + '.src') as cr:
                    cr.write_cropped_file_by_indexes(p + '.c1', None, None, (4, nzz))
                with SgzCropper(p + '.c1') as cr:
                    sec = c.get('second', 4 * (1 + ci % 2))
                    cr.write_cropped_file_by_indexes(p, None, None, (sec, nzz - 4))
            exp = [S + k * I / 1000.0 for k in range(4 + sec, nzz)]
            os.remove(p + '.src')
            os.remove(p + '.c1')
        elif c['route'] == 'numpy-reblock':
            from seismic_zfp.conversion import SgzConverter
            writers.numpy_to_sgz(p + '.src', inputs.cube((2, 3, nz), ci), 2, (4, 4, -1), samples=samples)
            with env.quiet():
                with SgzConverter(p + '.src') as cv:
                    cv.convert_to_adv_sgz(p)
            os.remove(p + '.src')
        else:
            sgy = p + '.sgy'
            if c['route'] == 'segy':
                # the interval recorded in both file and trace headers, in the trace headers only, or inconsistently (segyio's rule decides)
                binf = (None, {segyio.BinField.Interval: 0}, None, {segyio.BinField.Interval: 3000})[ci % 4]
                inputs.write_segy(sgy, inputs.cube((2, 3, nz), ci), [1, 2], [1, 2, 3], samples, delay=S, bin_fields=binf)
            else:
                inputs.write_segy_traces(sgy, inputs.cube((5, nz), ci), samples, [{} for _ in range(5)])
            with segyio.open(sgy, strict=False) as s:
                exp = np.asarray(s.samples, dtype=np.float64).tolist()        # the source's own axis
                src_lines = None if s.unstructured else (np.asarray(s.ilines).tolist(), np.asarray(s.xlines).tolist())
                src_ntr = int(s.tracecount)
            writers.segy_to_sgz(sgy, p, 32 if nz <= 64 else 16, None)
            os.remove(sgy)
            # ... and after export back to SEG-Y (segyio on the exported file)
            from seismic_zfp.conversion import SgzConverter
            with env.quiet():
                with SgzConverter(p) as cv:
                    cv.convert_to_segy(p + '.out.sgy')
            with segyio.open(p + '.out.sgy', strict=False) as s2:
                export = {'z': np.asarray(s2.samples, dtype=np.float64).tolist(), 'ntr': int(s2.tracecount),
                          'lines': None if s2.unstructured else (np.asarray(s2.ilines).tolist(), np.asarray(s2.xlines).tolist())}
            os.remove(p + '.out.sgy')
            export['ok_lines'] = export['lines'] == src_lines and export['ntr'] == src_ntr
        g, words = _read_geom(p)
        return {'z': g['z'], 'emu_z': g['emu_z'], 'exp': exp, 'dz_word': words['dz'], 'z0_word': words['z0'], 'ntr': g['ntr'],
                'export': export if c['route'] in ('segy', 'segy2d') else None}
    except BaseException as e:
        if isinstance(e, (KeyboardInterrupt, SystemExit, MemoryError)):
            raise
        return {'error': f'{type(e).__name__}: {e}'}
    finally:
        if os.path.exists(p):
            os.remove(p)


def close(a, b):
    if len(a) != len(b):
        return False
    a, b = np.asarray(a, dtype=np.float64), np.asarray(b, dtype=np.float64)
    return bool(np.all(np.abs(a - b) <= 1e-9 * np.maximum(1.0, np.abs(b))))


def plan(run):
    quick = run.tier == 'quick'
    W = WQ if quick else WT
    out = tlc.oracle('Gen_Geometry', {'items': [{'op': 'triples', 'maxcount': 5}]}, key='items', constants_env=None,
                     cfg='Gen_Geometry' if quick else 'Gen_Geometry_w6')
    run.add_tlc({'distinct': 0, 'generated': out['_tlc']['generated'], 'wall_s': out['_tlc']['wall_s']}, 'Gen_Geometry(triples)')
    T = out['items'][0]['triples']
    run.extra['model_triples'] = len(T)
    rng = np.random.default_rng(run.seed)
    perm = rng.permutation(len(T))
    K = 2 ** (32 - W)
    cases = []
    for j, t in enumerate(T):
        x = T[perm[j]]
        cases.append({'il': t, 'xl': x, 'K': K if j % 2 == 0 else 1, 'route': 'segy' if j % 16 == 5 else 'numpy',
                      'crop': (1 + j % 3) if (j % 9 == 0 and t['count'] >= 5) else None, 'reblock': j % 40 == 7, 'from_header': j % 40 == 13})
        if j % 2 == 0 and j % 6 == 0:
            cases.append({'il': x, 'xl': t, 'K': 1, 'route': 'numpy', 'crop': None})
    # hand-picked 32-bit extremes (not multiples of the scale)
    for il, xl in (({'start': 2**31 - 1, 'step': -1, 'count': 3}, {'start': -2**31, 'step': 1, 'count': 2}),
                   ({'start': -2**31, 'step': 2**31 - 1, 'count': 3}, {'start': 2**31 - 1, 'step': -(2**31 - 1), 'count': 3}),
                   ({'start': -7, 'step': 5, 'count': 9}, {'start': 1000000, 'step': -333333, 'count': 6})):
        cases.append({'il': il, 'xl': xl, 'K': 1, 'route': 'numpy', 'crop': None})
        cases.append({'il': xl, 'xl': il, 'K': 1, 'route': 'segy', 'crop': None})
    # counts that do not fit 8 or 16 bits: 256 / 300 lines on one axis, more than 65535 traces (the count fields are 32-bit words)
    for il, xl, crop in (({'start': 1000, 'step': 2, 'count': 256}, {'start': -50, 'step': 1, 'count': 257}, None),
                         ({'start': 5, 'step': 1, 'count': 3}, {'start': 70000, 'step': 3, 'count': 300}, None),
                         ({'start': 1, 'step': 1, 'count': 260}, {'start': 1, 'step': 1, 'count': 254}, 2)):
        cases.append({'il': il, 'xl': xl, 'K': 1, 'route': 'numpy', 'crop': crop, 'setting': [2, [64, 64, 4]]})
    # sample axis
    if quick:
        ints = sorted(set(list(range(1, 40)) + [250, 333, 499, 500, 501, 999, 1000, 1001, 1999, 2000, 2001, 2500, 3999, 4000, 4001, 7813,
                                                  32767, 32768, 65534, 65535] + rng.integers(1, 65536, size=500).tolist()))
    else:
        ints = list(range(1, 65536))
    zc = []
    starts = (-32768, -1, 0, 8, 32767)
    for j, I in enumerate(ints):
        for S in (starts if (quick or j % 16 == 0) else (starts[j % 5],)):
            zc.append({'I': I, 'S': S, 'nz': (2, 5, 70)[(j + S) % 3], 'route': 'numpy'})
        if j % 8 == 0:
            zc.append({'I': I, 'S': starts[j % 5], 'nz': 5, 'route': 'segy'})
        if j % 8 == 4:
            zc.append({'I': I, 'S': starts[j % 5], 'nz': 6, 'route': 'segy2d'})
        if j % 32 == 7:
            zc.append({'I': I, 'S': 0, 'nz': 9, 'route': 'numpy-reblock'})
        if j % 16 == 3 or I in (125, 250, 500, 1001):
            zc.append({'I': I, 'S': starts[j % 5], 'nz': 24, 'route': 'numpy-crop2'})
    # traces that run past 2^31 microseconds (a coarse but legal interval, very many samples): the axis is not 32-bit microsecond arithmetic
    zc.append({'I': 65535, 'S': 0, 'nz': 33000, 'route': 'numpy'})
    zc.append({'I': 50000, 'S': 8, 'nz': 45000, 'route': 'numpy'})
    zc.append({'I': 60000, 'S': 0, 'nz': 40000, 'route': 'segy'})
    # two vertical crops where the first starts between whole milliseconds and the second ends up on / off one
    for I in (125, 375, 625, 250, 1125, 50):
        for S in (0, -1, 8):
            zc.append({'I': I, 'S': S, 'nz': 24, 'route': 'numpy-crop2', 'second': 4})
            zc.append({'I': I, 'S': S, 'nz': 24, 'route': 'numpy-crop2', 'second': 8})
    return W, K, cases, zc


def check_axes(run, tag, case, g, il, xl):
    run.check(g['il'] == il and g['xl'] == xl, f'C05.line-axes{tag}', case, {'il': g['il'][:6], 'xl': g['xl'][:6]}, {'il': il[:6], 'xl': xl[:6]})
    run.check(g['emu_il'] == il and g['emu_xl'] == xl, f'C05.line-axes-emulator{tag}', case, {'il': g['emu_il'][:6], 'xl': g['emu_xl'][:6]}, None)
    run.check(g['ntr'] == len(il) * len(xl) and g['structured'] and g['emu_ntr'] == g['ntr'], f'C05.tracecount-structured{tag}', case,
              {'ntr': g['ntr'], 'structured': g['structured']}, {'ntr': len(il) * len(xl), 'structured': True})


def fixtures(run):
    """files written by every historical version against their SEG-Y sources"""
    from seismic_zfp.read import SgzReader
    pairs = [('small_8bit.sgz', 'small.sgy'), ('small_4bit.sgz', 'small.sgy'), ('small_2bit.sgz', 'small.sgy'), ('small_1bit.sgz', 'small.sgy'),
             ('small_05bit.sgz', 'small.sgy'), ('small_025bit.sgz', 'small.sgy'), ('small_2bit-64x64.sgz', 'small.sgy'),
             ('small_8bit-8x8.sgz', 'small.sgy'), ('small_v0.0.1.sgz', 'small.sgy'), ('small-dec_8bit.sgz', 'small-dec.sgy'),
             ('small-2d.sgz', 'small-2d.sgy')]
    for sgz, sgy in pairs:
        a, b = os.path.join(inputs.FIXTURES, sgz), os.path.join(inputs.FIXTURES, sgy)
        if not (os.path.exists(a) and os.path.exists(b)):
            continue
        case = {'fixture': sgz}
        run.case(case)
        with env.quiet():
            with SgzReader(a) as r, segyio.open(b, strict=False) as s:
                ok = close(np.asarray(r.zslices).tolist(), np.asarray(s.samples, dtype=np.float64).tolist()) and r.tracecount == s.tracecount
                if r.is_3d:
                    ok = ok and np.array_equal(r.ilines, s.ilines) and np.array_equal(r.xlines, s.xlines) and r.structured
                run.check(ok, 'C05.fixture-axes', case, {'z': np.asarray(r.zslices)[:3].tolist()}, {'z': np.asarray(s.samples)[:3].tolist()})
    # ... and the tools applied to archived files: a crop keeps the sub-axes, a re-block keeps the axes (read under the conventions of the
    # version the derived file records)
    from seismic_zfp.cropping import SgzCropper
    from seismic_zfp.conversion import SgzConverter
    d = env.subdir('c05fx')
    for sgz in ('small_4bit.sgz', 'small_8bit-8x8.sgz', 'small-dec_8bit.sgz', 'small_2bit.sgz', 'small_8bit.sgz', 'small_v0.0.1.sgz'):
        a = os.path.join(inputs.FIXTURES, sgz)
        if not os.path.exists(a):
            continue
        for tool in ('crop', 'reblock'):
            if tool == 'reblock' and sgz != 'small_2bit.sgz':
                continue
            case = {'fixture': sgz, 'tool': tool}
            run.case(case)
            out_p = os.path.join(d, f'{tool}-{sgz}')
            try:
                with env.quiet():
                    with SgzReader(a) as r:
                        il, xl, zs, ntr = np.asarray(r.ilines), np.asarray(r.xlines), np.asarray(r.zslices, dtype=np.float64), int(r.tracecount)
                        b0 = min(int(r.blockshape[0]), len(il))       # the first block row of inlines (all of them when a block is taller)
                    if tool == 'crop':
                        with SgzCropper(a) as c:
                            c.write_cropped_file_by_indexes(out_p, (0, b0), None, None)
                        il = il[:b0]
                        ntr = len(il) * len(xl)
                    else:
                        with SgzConverter(a) as c:
                            c.convert_to_adv_sgz(out_p)
                    with SgzReader(out_p) as r2:
                        ok = (np.array_equal(r2.ilines, il) and np.array_equal(r2.xlines, xl) and close(np.asarray(r2.zslices, dtype=np.float64).tolist(), zs.tolist())
                              and int(r2.tracecount) == ntr and bool(r2.structured))
                        got = {'il': np.asarray(r2.ilines)[:3].tolist(), 'z': np.asarray(r2.zslices)[:3].tolist(), 'ntr': int(r2.tracecount), 'structured': bool(r2.structured)}
                run.check(ok, f'C05.fixture-axes-after-{tool}', case, got, {'il': il[:3].tolist(), 'z': zs[:3].tolist(), 'ntr': ntr})
            except BaseException as e:
                if isinstance(e, (KeyboardInterrupt, SystemExit, MemoryError)):
                    raise
                run.fail(f'C05.fixture-axes-after-{tool}', case, f'{type(e).__name__}: {e}', 'a readable derived file')
            finally:
                if os.path.exists(out_p):
                    os.remove(out_p)


def judge_axis(run, c, r, ev, W, K):
    case = {'il': c['il'], 'xl': c['xl'], 'K': c['K'], 'route': c['route']}
    if c.get('setting'):
        case['setting'] = c['setting']
    run.case(case)
    if isinstance(r, par.Crash) or 'error' in r:
        run.fail('C05.converts', case, str(r if isinstance(r, par.Crash) else r['error']), 'a readable file')
        return
    check_axes(run, '', case, r['g'], r['il'], r['xl'])
    if 'crop' in r:
        check_axes(run, '[cropped]', dict(case, crop=c['crop']), r['crop']['g'], r['crop']['il'], r['crop']['xl'])
    if 'reblock' in r:
        check_axes(run, '[re-blocked]', dict(case, reblock=True), r['reblock']['g'], r['il'], r['xl'])
    if 'from_header' in r:
        check_axes(run, '[axes-from-header-arrays]', dict(case, from_header=True), r['from_header']['g'], r['il'], r['xl'])
    if ev is not None:          # scaled case: the real header words are the model's words times K
        w = ev['words']
        got = r['words']
        exp = {k: (w[k] * K) % 2**32 for k in ('il_start', 'il_step', 'xl_start', 'xl_step')}
        if any(got[k] != exp[k] for k in exp):
            run.drift(f'{case}: header words {[got[k] for k in exp]} differ from SgzGeometry!EncGeom x K {list(exp.values())}')
        else:
            run.traces_validated += 1
        if not ev['preserved']:
            run.drift(f'{case}: model does not preserve this geometry')


def run(run):
    quick = run.tier == 'quick'
    run.mc('MC_Geometry', f'MC_Geometry_{run.tier}')
    W, K, cases, zc = plan(run)
    par.G['seed'] = run.seed
    # the model on the scaled cases
    items, where = [], {}
    for j, c in enumerate(cases):
        if c['K'] == K:
            where[j] = len(items)
            items.append({'op': 'eval', 'G': {'il': c['il'], 'xl': c['xl'], 'z0': 0, 'dz': 4000, 'nz': 4, 'ntr': c['il']['count'] * c['xl']['count'],
                                              'post016': True, 'post021': True, 'dim': 3}})
    out = tlc.oracle('Gen_Geometry', {'items': items}, key='items', cfg='Gen_Geometry' if quick else 'Gen_Geometry_w6')
    run.add_tlc({'distinct': 0, 'generated': out['_tlc']['generated'], 'wall_s': out['_tlc']['wall_s']}, 'Gen_Geometry(eval)')
    res = par.pmap(_axis_worker, list(enumerate(cases)), chunksize=8)
    for j, (c, r) in enumerate(zip(cases, res)):
        judge_axis(run, c, r, out['items'][where[j]] if j in where else None, W, K)
    zres = par.pmap(_z_worker, list(enumerate(zc)), chunksize=16)
    for c, r in zip(zc, zres):
        case = dict(c)
        run.case(case)
        if isinstance(r, par.Crash) or 'error' in r:
            run.fail('C05.converts', case, str(r if isinstance(r, par.Crash) else r['error']), 'a readable file')
            continue
        run.check(close(r['z'], r['exp']), f'C05.sample-axis[{c["route"]}]', case, {'n': len(r['z']), 'z': r['z'][:4]}, {'n': len(r['exp']), 'z': r['exp'][:4]})
        run.check(close(r['emu_z'], r['exp']), f'C05.sample-axis-emulator[{c["route"]}]', case, {'n': len(r['emu_z']), 'z': r['emu_z'][:4]}, None)
        if r.get('export'):
            run.check(close(r['export']['z'], r['exp']), f'C05.sample-axis-after-export[{c["route"]}]', case, {'z': r['export']['z'][:4]}, {'z': r['exp'][:4]})
            run.check(r['export']['ok_lines'], f'C05.lines-tracecount-after-export[{c["route"]}]', case, {'ntr': r['export']['ntr']}, 'as the source')
        # model: a file newer than 0.1.6 stores the interval in whole microseconds and the start in whole ms
        if c['route'] == 'numpy-crop2':
            run.traces_validated += 0
        elif r['dz_word'] != c['I'] or r['z0_word'] != c['S'] % 2**32:
            run.drift(f'{case}: interval/start words {r["dz_word"]}/{r["z0_word"]} differ from SgzGeometry!EncGeom {c["I"]}/{c["S"] % 2**32}')
        else:
            run.traces_validated += 1
    fixtures(run)
    run.exhaustive = not quick


def replay(run, rep):
    c = rep['case']
    par.G['seed'] = run.seed
    if 'fixture' in c:
        fixtures(run)
        return
    if 'I' in c:
        r = _z_worker((0, c))
        if 'error' in r:
            run.fail('C05.converts', c, r['error'], None)
            return
        run.check(close(r['z'], r['exp']), f'C05.sample-axis[{c["route"]}]', c, {'n': len(r['z']), 'z': r['z'][:4]}, {'n': len(r['exp']), 'z': r['exp'][:4]})
        run.check(close(r['emu_z'], r['exp']), f'C05.sample-axis-emulator[{c["route"]}]', c, None, None)
        if r.get('export'):
            run.check(close(r['export']['z'], r['exp']), f'C05.sample-axis-after-export[{c["route"]}]', c, {'z': r['export']['z'][:4]}, {'z': r['exp'][:4]})
            run.check(r['export']['ok_lines'], f'C05.lines-tracecount-after-export[{c["route"]}]', c, None, None)
        return
    cc = dict(c)
    r = _axis_worker((0, cc))
    judge_axis(run, cc, r, None, WQ, 2 ** (32 - WQ))
