"""Storage backends handed to SgzReader from outside: counting, fault-injecting, truncated, fake blob."""
import io
import threading


class CountingFile:
    """A local 'file handle' (read/seek/name) that logs every read as (offset, length, returned)."""

    def __init__(self, data, name='mem.sgz', faults=None, limit=None):
        self.data = data if limit is None else data[:limit]
        self.name = name
        self.pos = 0
        self.log = []
        self.faults = faults or {}       # read ordinal -> 'exc' | 'short' | 'empty'
        self.count = 0
        self.delivered = []
        self.closed = False

    jitter = 0.0        # seconds to yield after a seek (set by C17 after a fault: a reader thread that outlived its failed call and still
                        # moves this handle then gets between the next call's seek and its read)

    def seek(self, pos, whence=0):
        self.pos = pos if whence == 0 else (self.pos + pos if whence == 1 else len(self.data) + pos)
        if self.jitter:
            import time
            mine = self.pos
            time.sleep(self.jitter)
            if self.pos != mine:
                self.moved_by_others = getattr(self, 'moved_by_others', 0) + 1
        return self.pos

    def tell(self):
        return self.pos

    def read(self, n=-1):
        if n is None or n < 0:
            n = max(0, len(self.data) - self.pos)
        k = self.count
        self.count += 1
        kind = self.faults.get(k)
        out = self.data[self.pos:self.pos + n]
        if kind == 'exc':
            self.delivered.append((k, kind))
            self.log.append((self.pos, n, -1))
            raise OSError(5, f'injected I/O error at read #{k}')
        if kind == 'short' and len(out) > 0:
            out = out[:len(out) // 2] if len(out) > 1 else b''
            self.delivered.append((k, kind))
        elif kind == 'short512' and len(out) > 512:       # only the tail of a large transfer is missing
            out = out[:len(out) - 512]
            self.delivered.append((k, kind))
        elif kind == 'short4' and len(out) > 4:          # short by a whole number of 32-bit words (a truncated header array still parses)
            out = out[:max(4, (len(out) // 8) * 4)]
            self.delivered.append((k, kind))
        elif kind == 'empty' and len(out) > 0:
            out = b''
            self.delivered.append((k, kind))
        self.log.append((self.pos, n, len(out)))
        self.pos += len(out)
        return out

    def readinto(self, b):
        """as io.RawIOBase.readinto: fills b with what read(len(b)) returns, reports how many bytes that was"""
        out = self.read(len(b))
        b[:len(out)] = out
        return len(out)

    def readable(self):
        return True

    def seekable(self):
        return True

    def close(self):
        self.closed = True

    def take(self):
        l, self.log = self.log, []
        return l


class _Downloader:
    def __init__(self, fn):
        self.fn = fn

    def readall(self):
        return self.fn()


class FakeBlob:
    """A blob client stand-in (download_blob(offset, length).readall()), thread safe, with faults by
    (offset) and an optional gate that releases concurrent reads in a prescribed order."""

    def __init__(self, data, name='blob.sgz', faults=None, order=None):
        self.data = data
        self.blob_name = name
        self.log = []
        self.lock = threading.Lock()
        self.faults = faults or {}       # request ordinal (by arrival) -> kind
        self.count = 0
        self.delivered = []
        self.order = order               # None or function(list of pending ordinals) -> ordinal to release

    def download_blob(self, offset=0, length=None):
        with self.lock:
            k = self.count
            self.count += 1
            self.log.append((offset, length, None))
        kind = self.faults.get(k)

        def fn():
            out = self.data[offset:offset + length]
            if kind == 'exc':
                with self.lock:
                    self.delivered.append((k, kind))
                raise OSError(5, f'injected blob error at request #{k}')
            if kind == 'short' and len(out) > 0:
                with self.lock:
                    self.delivered.append((k, kind))
                return out[:len(out) // 2] if len(out) > 1 else b''
            if kind == 'short4' and len(out) > 4:
                with self.lock:
                    self.delivered.append((k, kind))
                return out[:max(4, (len(out) // 8) * 4)]
            if kind == 'short512' and len(out) > 512:
                with self.lock:
                    self.delivered.append((k, kind))
                return out[:len(out) - 512]
            if kind == 'empty' and len(out) > 0:
                with self.lock:
                    self.delivered.append((k, kind))
                return b''
            return out
        return _Downloader(fn)

    def close(self):
        pass

    def take(self):
        with self.lock:
            l, self.log = self.log, []
        return [(o, n, n) for o, n, _ in l]
