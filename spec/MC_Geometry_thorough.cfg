CONSTANT W = 6
CONSTANT GBug = "none"
CONSTANT MaxCount = 8
SPECIFICATION Spec
INVARIANT PPreserved
INVARIANT PCrop
INVARIANT PCrop2
CHECK_DEADLOCK FALSE
