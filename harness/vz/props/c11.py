"""C11 converting with an inline/crossline ordinal window equals converting the windowed cube.

TLC (MC_Ingest over SgzIngest, mode "win") checks every window <<a,b,c,d>> on small grids, including windows starting at
ordinal 0 and absent bounds: extents, axis origins, trace count, the source trace behind every output trace and behind every
cell of every footer array as the reader finds it (writer stride vs reader stride).  Every window of real cubes is then
converted with both SEG-Y readers and several detection modes and compared with the conversion of a SEG-Y that contains only
the windowed traces: data section bytes, axes, trace count, every trace header, every tracefield array; TLC evaluates the
model for the real (NI, NX, window) and its prediction is compared with the file (conformance)."""
import os

import numpy as np
import segyio

from .. import codec, env, inputs, par, sgzfile, tlc, writers

FINISH = dict(
    level='model_checking',
    rule='cubes 5x4, 6x9, a crossline-sorted 5x7 (and 9x33 with arrays beyond one 512-byte stride); windows = all 0 <= a < b <= NI, 0 <= c < d <= NX (quick: seeded '
         'sample always including every window with a = 0 or c = 0 boundary class) x reduce_iops on/off x detection mode; non-trivial = distinct '
         '(cube, window, reader, mode)',
    assumptions=['the comparison file is the library\'s own conversion of a SEG-Y holding exactly the windowed traces'],
    trusted=['zfpy', 'numpy', 'segyio', 'TLC'])


def headers_for(ni, nx, sorting='il'):
    H = {}
    t = np.arange(ni * nx).reshape(ni, nx)          # t = the trace's ordinal in the source FILE
    if sorting == 'xl':
        t = np.arange(ni * nx).reshape(nx, ni).T
    H[segyio.TraceField.CDP] = 7 * t + 3
    H[segyio.TraceField.FieldRecord] = 20000 + t * t
    H[segyio.TraceField.SourceX] = -5 * t - 1
    return H


def _prepare(d, k, shape, seed, sorting='il'):
    ni, nx, nz = shape
    cube = inputs.cube(shape, seed + k)
    il = (100 if k != 2 else 0) + 2 * np.arange(ni)        # (the large cube is numbered from inline 0: a regular survey, not a 2-D line)
    xl = -7 + 3 * np.arange(nx)
    sgy = os.path.join(d, f'src{k}.sgy')
    inputs.write_segy(sgy, cube, il, xl, np.arange(nz) * 4.0, headers=headers_for(ni, nx, sorting), sorting=sorting)
    return sgy, cube, il, xl


def _read_all(p):
    from seismic_zfp.read import SgzReader
    keys = sgzfile.trace_keys()
    with open(p, 'rb') as f:
        raw = f.read()
    hb = int.from_bytes(raw[0:4], 'little') * 4096
    nblocks = int.from_bytes(raw[56:60], 'little')
    out = {'data': raw[hb:hb + nblocks * 4096], 'len': len(raw)}
    with env.quiet():
        with SgzReader(p) as r:
            out['il'] = np.asarray(r.ilines).tolist()
            out['xl'] = np.asarray(r.xlines).tolist()
            out['z'] = np.asarray(r.zslices).tolist()
            out['ntr'] = int(r.tracecount)
            out['structured'] = bool(r.structured)
            out['vol'] = r.read_volume()
            out['stored'] = [int(k) for k in r.stored_header_keys]
            out['hdr'] = [[int(h[segyio.TraceField(k)]) for k in keys] for h in (r.gen_trace_header(i) for i in range(r.tracecount))]
            out['tf'] = {int(k): np.asarray(r.get_tracefield_values(k)).astype(np.int64).tolist() for k in r.stored_header_keys}
    return out


def _worker(item):
    ci, c = item
    d = env.subdir(f'c11-{os.getpid()}')
    S = par.G['sources'][c['src']]
    a, b, cc, dd = c['w']
    out = {}
    paths = []
    try:
        ni, nx, nz = S['shape']
        keys = sgzfile.trace_keys()
        win = os.path.join(d, f'win{ci}.sgz')
        paths.append(win)
        if c.get('cli'):
            writers.cli_sgy2sgz(S['sgy'], win, c['rate'], c['bs'], reduce_iops=c['iops'], window=(a, b, cc, dd))
        else:
            writers.segy_to_sgz(S['sgy'], win, c['rate'], c['bs'], reduce_iops=c['iops'], header_detection=c['mode'], window=(a, b, cc, dd),
                                np_ints=(ci % 4 == 1))
        W = _read_all(win)
        if c.get('cli'):         # the command line maps its options one to one onto the API: same bytes
            api = os.path.join(d, f'api{ci}.sgz')
            paths.append(api)
            writers.segy_to_sgz(S['sgy'], api, c['rate'], c['bs'], reduce_iops=c['iops'], header_detection='heuristic', window=(a, b, cc, dd))
            with open(api, 'rb') as f1, open(win, 'rb') as f2:
                cli_same = f1.read() == f2.read()
        ideal = codec.ideal_volume(S['cube'][a:b, cc:dd], c['rate'])
        # the truth comes from the SOURCE: trace (p, q) of the window is source trace (a + p, c + q)
        T = S['truth']
        exp_hdr = [[int(v) for v in T[(a + p) * nx + cc + q]] for p in range(b - a) for q in range(dd - cc)]
        if c['mode'] == 'strip':
            exp_hdr = [[0] * len(keys) for _ in exp_hdr]
        exp_tf = {k: [[int(T[(a + p) * nx + cc + q][keys.index(k)]) for q in range(dd - cc)] for p in range(b - a)] for k in W['stored']}
        out = {'axes': (W['il'], W['xl']) == (S['il'][a:b].tolist(), S['xl'][cc:dd].tolist()) and W['z'] == (np.arange(nz) * 4.0).tolist(),
               'ntr': (W['ntr'], (b - a) * (dd - cc), W['structured']),
               'vol': codec.same_bits(W['vol'], ideal) if W['vol'].shape == ideal.shape else False,
               'cli_same': cli_same if c.get('cli') else None,
               'hdr': W['hdr'] == exp_hdr, 'tf': W['tf'] == exp_tf, 'stored': W['stored'], 'w_il': W['il'], 'w_xl': W['xl'],
               'first_bad_hdr': next(((i, [keys[j] for j in range(len(keys)) if x[j] != y[j]][:5]) for i, (x, y) in enumerate(zip(exp_hdr, W['hdr'])) if x != y), None)
               if len(exp_hdr) == len(W['hdr']) else 'count'}
        # ... and the file is the one converting the sub-cube alone gives (a sub-cube one line wide would be taken for a 2-D line)
        if b - a >= 2 and dd - cc >= 2:
            sub = os.path.join(d, f'sub{ci}.sgy')
            ref = os.path.join(d, f'ref{ci}.sgz')
            paths += [sub, ref]
            inputs.write_segy_traces(sub, S['cube'][a:b, cc:dd].reshape(-1, nz), np.arange(nz) * 4.0,
                                     [{k: int(v) for k, v in zip(keys, T[(a + p) * nx + cc + q])} for p in range(b - a) for q in range(dd - cc)])
            writers.segy_to_sgz(sub, ref, c['rate'], c['bs'], reduce_iops=False, header_detection=c['mode'])
            R = _read_all(ref)
            out['same_as_sub'] = {'data': R['data'] == W['data'], 'len': R['len'] == W['len'], 'stored': R['stored'] == W['stored'], 'tf': R['tf'] == W['tf'],
                                  'hdr': R['hdr'] == W['hdr']}
        fr = W['tf'].get(int(segyio.TraceField.FieldRecord))
        if fr is not None:
            out['cells'] = [int(round((v - 20000) ** 0.5)) + 1 if v >= 20000 else 0 for v in np.asarray(fr).reshape(-1)]
    except BaseException as e:
        if isinstance(e, (KeyboardInterrupt, SystemExit, MemoryError)):
            raise
        out = {'error': f'{type(e).__name__}: {e}'}
    finally:
        for p in paths:
            if os.path.exists(p):
                os.remove(p)
    return out


def sources(run):
    d = env.subdir('c11src')
    keys = sgzfile.trace_keys()
    S = []
    for k, shape in enumerate(SHAPES):
        sgy, cube, il, xl = _prepare(d, k, shape, run.seed, SORTING[k])
        with segyio.open(sgy, strict=False) as s:
            truth = [[int(s.header[i][kk]) for kk in keys] for i in range(s.tracecount)]
        if SORTING[k] == 'xl':       # truth[i * nx + x] = the header of the source trace AT (i, x), wherever it is in the file
            ni, nx = shape[:2]
            truth = [truth[x * ni + i] for i in range(ni) for x in range(nx)]
        S.append({'sgy': sgy, 'cube': cube, 'il': il, 'xl': xl, 'shape': shape, 'truth': truth})
    return S


SHAPES = [(5, 4, 10), (6, 9, 7), (9, 33, 5), (5, 7, 6)]
SORTING = ['il', 'il', 'il', 'xl']          # the last source is crossline sorted


def plan(run):
    quick = run.tier == 'quick'
    rng = np.random.default_rng(run.seed)
    cases = []
    for si, (ni, nx, nz) in enumerate(SHAPES):
        wins = [(a, b, c, d) for a in range(ni) for b in range(a + 1, ni + 1) for c in range(nx) for d in range(c + 1, nx + 1)]
        if si == 2 or quick:
            zero = [w for w in wins if (w[0] == 0) != (w[2] == 0)]
            keep = set(rng.choice(len(wins), size=min(len(wins), 70 if si < 2 else 40), replace=False).tolist())
            z = set(rng.choice(len(zero), size=min(len(zero), 16), replace=False).tolist())
            wins = [w for i, w in enumerate(wins) if i in keep] + [w for i, w in enumerate(zero) if i in z] + [(0, ni, 0, nx), (0, 1, 0, 1), (ni - 1, ni, nx - 1, nx)]
            # windows along one axis only (every inline kept / every crossline kept)
            wins += [(0, ni, 1, nx - 1), (0, ni, nx // 2, nx), (0, ni, 0, max(1, nx // 3)), (1, ni - 1, 0, nx), (ni // 2, ni, 0, nx), (0, max(1, ni // 3), 0, nx)]
            wins = sorted(set(wins))
        for j, w in enumerate(wins):
            cli = j % 7 == 3        # through the command line interface (no detection option there: the default)
            cases.append({'src': si, 'w': list(w), 'iops': bool(j % 2), 'mode': 'heuristic' if cli else (('heuristic', 'thorough', 'exhaustive', 'strip')[j % 4] if j % 3 else 'thorough'),
                          'rate': (16, 8, 32, 32, 32)[j % 5], 'bs': (None, None, (8, 8, 16), (4, 8, 32), (16, 16, 4))[j % 5], 'cli': cli})
    return cases


def judge(run, c, r, ev):
    case = dict(c, shape=list(SHAPES[c['src']]), sorting=SORTING[c['src']])
    a, b, cc, dd = c['w']
    run.case(case, nontrivial=True)
    if isinstance(r, par.Crash) or 'error' in r:
        run.fail('C11.converts', case, str(r if isinstance(r, par.Crash) else r['error']), 'a readable file')
        return
    run.check(r['vol'], 'C11.samples-of-subcube', case, None, 'the ZFP image of source[a:b, c:d]')
    run.check(r['axes'], 'C11.axes', case, {'il': r['w_il'][:4], 'xl': r['w_xl'][:4]}, 'axes of the windowed traces')
    run.check(r['ntr'][0] == r['ntr'][1] and r['ntr'][2], 'C11.tracecount', case, r['ntr'], (b - a) * (dd - cc))
    run.check(r['hdr'], 'C11.trace-headers', case, {'first_bad_trace': r['first_bad_hdr'], 'stored': r['stored']}, 'headers of the windowed source traces')
    run.check(r['tf'], 'C11.tracefield-arrays', case, {'stored': r['stored']}, 'arrays of the windowed source traces')
    if r.get('cli_same') is not None:
        run.check(r['cli_same'], 'C11.cli-equals-api', case, None, 'byte-identical files')
    for kk, vv in r.get('same_as_sub', {}).items():
        run.check(vv, f'C11.same-as-subcube-file[{kk}]', case, None, 'identical to converting a SEG-Y of the windowed traces')
    # model vs code: the source ordinal the reader finds behind every cell of a stored array
    if ev is not None and 'cells' in r and ev['ok']:
        exp = [x['cell'] for x in ev['cells'][0]]
        if r['cells'] != exp:
            run.drift(f'{case}: footer cells {r["cells"][:8]} differ from SgzIngest!Windowed {exp[:8]}')
        else:
            run.traces_validated += 1


def run(run):
    run.mc('MC_Ingest', f'MC_Ingest_win_{run.tier}', timeout=3000)
    cases = plan(run)
    par.G['sources'] = sources(run)
    items = [{'op': 'win', 'NI': SHAPES[c['src']][0], 'NX': SHAPES[c['src']][1], 'w': c['w'], 'narr': 1, 'srt': SORTING[c['src']]} for c in cases]
    out = tlc.oracle('Gen_Ingest', {'items': items}, key='items', timeout=1800)
    run.add_tlc({'distinct': 0, 'generated': out['_tlc']['generated'], 'wall_s': out['_tlc']['wall_s']}, 'Gen_Ingest(win)')
    res = par.pmap(_worker, list(enumerate(cases)), chunksize=2)
    for c, r, ev in zip(cases, res, out['items']):
        judge(run, c, r, ev)


def replay(run, rep):
    c = {k: v for k, v in rep['case'].items() if k not in ('shape', 'sorting')}
    par.G['sources'] = sources(run)
    judge(run, c, _worker((0, c)), None)
