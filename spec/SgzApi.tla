------------------------------- MODULE SgzApi -------------------------------
(***************************************************************************)
(* What every public read call MEANS, independent of how the reader does   *)
(* it: for a file descriptor F (SgzFormat + axes + population mask), an    *)
(* operation name and an argument tuple, the sequence of outcomes the      *)
(* properties allow.  An outcome is                                        *)
(*   Raise(e)            the call must raise exception class e             *)
(*   Box(il, xl, z, sq)  the outer product of three index sequences into   *)
(*                       the real (unpadded) decoded volume; sq = axes     *)
(*                       that are squeezed away in the returned array      *)
(*   Pairs(pos, z)       a list of (il,xl) positions x a z index sequence  *)
(*   Hdr(t)              the header of grid position / trace t             *)
(* In-range calls have exactly one allowed outcome (C02).  Out-of-range    *)
(* calls (C14) allow IndexError and, where Python indexing gives the       *)
(* request a meaning made of real samples only (negative ordinal, clipped  *)
(* or empty window), that meaning.                                         *)
(*                                                                         *)
(* Extra fields of F used here:                                            *)
(*   il, xl, zs : axes as records [s |-> start, d |-> step] (count = n[a]) *)
(*   mask : for irregular files the sequence (length ni*nx, 1-based grid   *)
(*          position + 1) of BOOLEAN "a trace exists here"; <<>> otherwise *)
(***************************************************************************)
EXTENDS SgzFormat

None == -1000000                      \* the Python value None in an argument tuple

Range(a, b) == [k \in 1..(IF b > a THEN b - a ELSE 0) |-> a + k - 1]     \* a, a+1, ..., b-1
Raise(e)           == [kind |-> "raise", exc |-> e]
Box(il, xl, z, sq) == [kind |-> "box", il |-> il, xl |-> xl, z |-> z, sq |-> sq]
Pairs(pos, z)      == [kind |-> "pairs", pos |-> pos, z |-> z]
Hdr(t, g)          == [kind |-> "header", trace |-> t, grid |-> g]
IndexErr == Raise("IndexError")
WrongDim == Raise("WrongDimensionalityError")

NI(F) == F.n[1]
NX(F) == F.n[2]
NZ(F) == F.n[3]
All(F, a) == Range(0, F.n[a])
Irregular(F) == F.dim = 3 /\ Len(F.mask) > 0

\* coordinate -> ordinal on an axis [s,d] with cnt entries; None when absent
CoordIndex(A, cnt, c) ==
    IF \E k \in 0..(cnt-1) : A.s + k * A.d = c
    THEN CHOOSE k \in 0..(cnt-1) : A.s + k * A.d = c
    ELSE None

\* An ordinal: in range -> item; negative within -cnt..-1 -> IndexError or Python's item
Ordinal(cnt, k, item(_)) ==
    IF k \in 0..(cnt-1) THEN << item(k) >>
    ELSE IF k \in (0-cnt)..(-1) THEN << IndexErr, item(cnt + k) >>
    ELSE << IndexErr >>

\* A half-open window [lo,hi) on an axis of length cnt (None = open end), as a sequence of
\* allowed index sequences or "raise"
Window(cnt, lo0, hi0) ==
    LET lo == IF lo0 = None THEN 0 ELSE lo0
        hi == IF hi0 = None THEN cnt ELSE hi0
    IN  IF 0 <= lo /\ lo < hi /\ hi <= cnt THEN [ok |-> TRUE, alts |-> << Range(lo, hi) >>]
        ELSE IF 0 <= lo /\ lo <= cnt /\ hi >= lo
             THEN [ok |-> FALSE, alts |-> << Range(lo, Min(hi, cnt)) >>]    \* clipped or empty: real samples only
             ELSE IF 0 <= lo /\ hi < lo /\ hi >= 0
                  THEN [ok |-> FALSE, alts |-> << <<>> >>]                  \* reversed: empty
                  ELSE [ok |-> FALSE, alts |-> <<>>]

\* trace ordinal -> grid position (il * nx + xl), through the population mask
Present(F)   == IF Irregular(F) THEN {g \in 0..(NI(F)*NX(F)-1) : F.mask[g+1]} ELSE 0..(NI(F)*NX(F)-1)
GridPos(F, t) ==       \* t-th present position in raster order
    IF ~Irregular(F) THEN t
    ELSE CHOOSE g \in Present(F) : Cardinality({h \in Present(F) : h < g}) = t
TraceCount(F) == IF F.dim = 2 THEN NX(F) ELSE Cardinality(Present(F))

TraceAt(F, g, zseq) == Box(<<g \div NX(F)>>, <<g % NX(F)>>, zseq, <<TRUE, TRUE, FALSE>>)

\* positions of the diagonals, ordered by increasing inline
CorrPos(F, cd) == LET lo == Max(0, cd)
                      hi == Min(NI(F), NX(F) + cd)     \* exclusive bound on il
                  IN  [k \in 1..(IF hi > lo THEN hi - lo ELSE 0) |-> <<lo + k - 1, lo + k - 1 - cd>>]
AntiPos(F, ad) == LET lo == Max(0, ad - NX(F) + 1)
                      hi == Min(NI(F), ad + 1)
                  IN  [k \in 1..(IF hi > lo THEN hi - lo ELSE 0) |-> <<lo + k - 1, ad - (lo + k - 1)>>]
SubSeqIdx(s, idx) == [k \in 1..Len(idx) |-> s[idx[k] + 1]]

Diagonal(F, pos, a) ==      \* a = <<id, mn, mx, smn, smx>>
    LET tw == IF a[2] = None \/ a[3] = None THEN [ok |-> TRUE, alts |-> << Range(0, Len(pos)) >>]
              ELSE Window(Len(pos), a[2], a[3])
        zw == IF a[4] = None \/ a[5] = None THEN [ok |-> TRUE, alts |-> << All(F, 3) >>]
              ELSE Window(NZ(F), a[4], a[5])
        vals == [j \in 1..(Len(tw.alts) * Len(zw.alts)) |->
                    Pairs(SubSeqIdx(pos, tw.alts[((j-1) \div Len(zw.alts)) + 1]), zw.alts[((j-1) % Len(zw.alts)) + 1])]
    IN  IF tw.ok /\ zw.ok THEN vals ELSE << IndexErr >> \o vals

\* lo, lo+st, ... < hi
Stepped(lo, hi, st) == [k \in 1..(IF hi > lo THEN CeilDiv(hi - lo, st) ELSE 0) |-> lo + (k - 1) * st]
\* a = <<lo,hi,step,sq>> per axis (sq = 1: an integer index lo, axis dropped); in-range by construction
SteppedBox(F, a) ==
    Box(IF a[4] = 1 THEN <<a[1]>> ELSE Stepped(a[1], a[2], a[3]),
        IF a[8] = 1 THEN <<a[5]>> ELSE Stepped(a[5], a[6], a[7]),
        IF a[12] = 1 THEN <<a[9]>> ELSE Stepped(a[9], a[10], a[11]),
        <<a[4] = 1, a[8] = 1, a[12] = 1>>)

Ideal3(F, op, a) ==
    CASE op = "read_inline" ->
            Ordinal(NI(F), a[1], LAMBDA k : Box(<<k>>, All(F, 2), All(F, 3), <<TRUE, FALSE, FALSE>>))
      [] op = "read_crossline" ->
            Ordinal(NX(F), a[1], LAMBDA k : Box(All(F, 1), <<k>>, All(F, 3), <<FALSE, TRUE, FALSE>>))
      [] op = "read_zslice" ->
            Ordinal(NZ(F), a[1], LAMBDA k : Box(All(F, 1), All(F, 2), <<k>>, <<FALSE, FALSE, TRUE>>))
      [] op = "read_inline_number" ->
            LET k == CoordIndex(F.il, NI(F), a[1])
            IN  IF k = None THEN << IndexErr >> ELSE << Box(<<k>>, All(F, 2), All(F, 3), <<TRUE, FALSE, FALSE>>) >>
      [] op = "read_crossline_number" ->
            LET k == CoordIndex(F.xl, NX(F), a[1])
            IN  IF k = None THEN << IndexErr >> ELSE << Box(All(F, 1), <<k>>, All(F, 3), <<FALSE, TRUE, FALSE>>) >>
      [] op = "read_zslice_coord" ->
            LET k == CoordIndex(F.zs, NZ(F), a[1])
            IN  IF k = None THEN << IndexErr >> ELSE << Box(All(F, 1), All(F, 2), <<k>>, <<FALSE, FALSE, TRUE>>) >>
      [] op = "read_subvolume" ->
            LET wi == Window(NI(F), a[1], a[2])
                wx == Window(NX(F), a[3], a[4])
                wz == Window(NZ(F), a[5], a[6])
            IN  IF wi.ok /\ wx.ok /\ wz.ok
                THEN << Box(wi.alts[1], wx.alts[1], wz.alts[1], <<FALSE, FALSE, FALSE>>) >>
                ELSE IF Len(wi.alts) > 0 /\ Len(wx.alts) > 0 /\ Len(wz.alts) > 0
                     THEN << IndexErr, Box(wi.alts[1], wx.alts[1], wz.alts[1], <<FALSE, FALSE, FALSE>>) >>
                     ELSE << IndexErr >>
      [] op = "read_volume" -> << Box(All(F, 1), All(F, 2), All(F, 3), <<FALSE, FALSE, FALSE>>) >>
      [] op = "get_trace" ->
            LET cnt == TraceCount(F)
                zw  == Window(NZ(F), a[2], a[3])
                one(k) == [j \in 1..Len(zw.alts) |-> TraceAt(F, GridPos(F, k), zw.alts[j])]
            IN  IF a[1] \in 0..(cnt-1)
                THEN IF zw.ok THEN one(a[1]) ELSE << IndexErr >> \o one(a[1])
                ELSE IF a[1] \in (0-cnt)..(-1) THEN << IndexErr >> \o one(cnt + a[1])
                ELSE << IndexErr >>
      [] op = "get_trace_by_coord" ->       \* a = <<index, cmin, cmax>>; cmax may be one step past the end
            LET lo == IF a[2] = None THEN 0 ELSE CoordIndex(F.zs, NZ(F), a[2])
                hi == IF a[3] = None THEN NZ(F)
                      ELSE IF a[3] = F.zs.s + NZ(F) * F.zs.d THEN NZ(F) ELSE CoordIndex(F.zs, NZ(F), a[3])
                cnt == TraceCount(F)
            IN  IF lo = None \/ hi = None THEN << IndexErr >>
                ELSE LET zw == Window(NZ(F), lo, hi)
                         one(k) == [j \in 1..Len(zw.alts) |-> TraceAt(F, GridPos(F, k), zw.alts[j])]
                     IN  IF a[1] \in 0..(cnt-1)
                         THEN IF zw.ok THEN one(a[1]) ELSE << IndexErr >> \o one(a[1])
                         ELSE IF a[1] \in (0-cnt)..(-1) THEN << IndexErr >> \o one(cnt + a[1])
                         ELSE << IndexErr >>
      [] op = "read_correlated_diagonal" ->
            IF a[1] > 0 - NX(F) /\ a[1] < NI(F) THEN Diagonal(F, CorrPos(F, a[1]), a) ELSE << IndexErr >>
      [] op = "read_anticorrelated_diagonal" ->
            IF a[1] >= 0 /\ a[1] < NI(F) + NX(F) - 1 THEN Diagonal(F, AntiPos(F, a[1]), a) ELSE << IndexErr >>
      [] op = "read_subplane" -> << WrongDim >>
      [] op = "gen_trace_header" ->
            LET cnt == TraceCount(F)
            IN  IF a[1] \in 0..(cnt-1) THEN << Hdr(a[1], GridPos(F, a[1])) >>
                ELSE IF a[1] \in (0-cnt)..(-1) THEN << IndexErr, Hdr(cnt + a[1], GridPos(F, cnt + a[1])) >>
                ELSE << IndexErr >>
      [] op = "box_stepped" -> << SteppedBox(F, a) >>
      [] OTHER -> << Raise("UnknownOp") >>

Ideal2(F, op, a) ==
    CASE op \in {"read_inline", "read_crossline", "read_zslice", "read_inline_number", "read_crossline_number",
                 "read_zslice_coord", "read_subvolume", "read_volume", "read_correlated_diagonal",
                 "read_anticorrelated_diagonal"} -> << WrongDim >>
      [] op = "read_subplane" ->
            LET wt == Window(NX(F), a[1], a[2])
                wz == Window(NZ(F), a[3], a[4])
            IN  IF wt.ok /\ wz.ok THEN << Box(<<0>>, wt.alts[1], wz.alts[1], <<TRUE, FALSE, FALSE>>) >>
                ELSE IF Len(wt.alts) > 0 /\ Len(wz.alts) > 0
                     THEN << IndexErr, Box(<<0>>, wt.alts[1], wz.alts[1], <<TRUE, FALSE, FALSE>>) >>
                     ELSE << IndexErr >>
      [] op \in {"get_trace", "get_trace_by_coord"} -> Ideal3(F, op, a)     \* same meaning; GridPos is the identity, ni = 1
      [] op = "gen_trace_header" -> Ordinal(NX(F), a[1], LAMBDA k : Hdr(k, k))
      [] OTHER -> << Raise("UnknownOp") >>

Ideal(F, op, a) == IF F.dim = 3 THEN Ideal3(F, op, a) ELSE Ideal2(F, op, a)

\* The call's arguments lie within the real extent: exactly one outcome and it is a value
InRange(F, op, a) == LET o == Ideal(F, op, a) IN Len(o) = 1 /\ o[1].kind # "raise"

(***************************************************************************)
(* C07: the 4 KiB data blocks a value outcome needs (indices into the data *)
(* section).  A stepped request needs its bounding box.                    *)
(***************************************************************************)
SeqRange(s) == {s[k] : k \in 1..Len(s)}
AxisBlocks(F, a, s) == IF Len(s) = 0 THEN {} ELSE
    LET lo == CHOOSE m \in SeqRange(s) : \A o \in SeqRange(s) : m <= o
        hi == CHOOSE m \in SeqRange(s) : \A o \in SeqRange(s) : m >= o
    IN  (lo \div F.b[a])..(hi \div F.b[a])
NeededBlocks(F, o) ==
    CASE o.kind = "box" ->
            {BlockIndex(F, <<ki, kx, kz>>) : ki \in AxisBlocks(F, 1, o.il), kx \in AxisBlocks(F, 2, o.xl),
                                              kz \in AxisBlocks(F, 3, o.z)}
      [] o.kind = "pairs" ->
            UNION {{BlockIndex(F, <<o.pos[k][1] \div F.b[1], o.pos[k][2] \div F.b[2], kz>>) :
                        kz \in AxisBlocks(F, 3, o.z)} : k \in 1..Len(o.pos)}
      [] OTHER -> {}
\* the byte ranges (relative to the data section) of the units a box outcome needs
NeededUnits(F, o) ==
    CASE o.kind = "box" ->
            {<<ui, ux, uz>> \in Units(F) :
                /\ \E k \in 1..Len(o.il) : o.il[k] \div UE(F, 1) = ui
                /\ \E k \in 1..Len(o.xl) : o.xl[k] \div 4 = ux
                /\ \E k \in 1..Len(o.z)  : o.z[k] \div 4 = uz}
      [] OTHER -> {}
=============================================================================
