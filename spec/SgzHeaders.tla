----------------------------- MODULE SgzHeaders -----------------------------
(***************************************************************************)
(* C04: trace-header preservation.  The header-word table and the footer   *)
(* arrays, as the writers build them (headers.py HeaderwordInfo,           *)
(* conversion.py write_headers / NumpyConverter, conversion_utils.py       *)
(* capture while planes are read) and as the reader decodes them           *)
(* (HeaderwordInfo.get_header_dict, read.py gen_trace_header,              *)
(* read_variant_headers, get_unstructured_mask).                           *)
(*                                                                         *)
(* A source is src[f][t]: the value of field f (fields numbered 1..NF in   *)
(* header-word = table order) in trace t (1..T: file order; for a regular  *)
(* cube the order of its positions, inline-major - SgzIngest!WindowedS     *)
(* states which FILE trace that is for either sorting).  A table row       *)
(* is <<constant, stored-as>>.  geo is the population mask over the grid   *)
(* positions (all TRUE for regular and 2-D inputs): trace ordinal i is the *)
(* i-th TRUE position.                                                     *)
(***************************************************************************)
EXTENDS Integers, Sequences, FiniteSets

CONSTANT HBug     \* "none" | spec-level mutants (never used to judge the code):
                  \*   "no_patch"      thorough mode does not rewrite count/table in the file header
                  \*   "numpy_append"  NumPy route keeps il/xl arrays appended after the sorted user arrays
                  \*   "first_last"    thorough mode re-classifies by first/last element only
                  \*   "mask_any"      reader takes the mask from the first stored array instead of the inline array

NF(src)  == Len(src)
NT(src)  == Len(src[1])
Fld(src) == 1..NF(src)
Trc(src) == 1..NT(src)

FirstV(src, f) == src[f][1]
LastV(src, f)  == src[f][NT(src)]
Variant(src, f)   == FirstV(src, f) # LastV(src, f)                    \* headers.py:201-203
ConstantF(src, f) == \A t \in Trc(src) : src[f][t] = src[f][1]
Earlier(src, f) == {g \in 1..(f - 1) : Variant(src, g) /\ FirstV(src, g) = FirstV(src, f) /\ LastV(src, g) = LastV(src, f)}
MinOf(S) == CHOOSE g \in S : \A h \in S : g <= h
DupOf(src, f) == IF Variant(src, f) /\ Earlier(src, f) # {} THEN MinOf(Earlier(src, f)) ELSE 0      \* headers.py:209-220

\* ascending sequence of a set of naturals
RECURSIVE Asc(_)
Asc(S) == IF S = {} THEN <<>> ELSE <<MinOf(S)>> \o Asc(S \ {MinOf(S)})

(***************************************************************************)
(* Writer side                                                             *)
(***************************************************************************)
\* m = [kind |-> "heuristic" | "thorough" | "exhaustive" | "strip" | "numpy", given |-> set of fields (numpy), il, xl |-> fields]
InitTable(src, m) ==
    [f \in Fld(src) |->
        CASE m.kind = "heuristic" -> IF Variant(src, f) THEN <<0, IF DupOf(src, f) = 0 THEN f ELSE DupOf(src, f)>>
                                     ELSE <<FirstV(src, f), 0>>
          [] m.kind \in {"thorough", "exhaustive"} -> <<0, f>>
          [] m.kind = "strip" -> <<0, 0>>
          [] m.kind = "numpy" -> IF f \in m.given \cup {m.il, m.xl} THEN <<0, f>> ELSE <<0, 0>>]

\* order of the header dict = order in which arrays are captured and written
InitKeys(src, m) ==
    CASE m.kind = "heuristic" -> Asc({f \in Fld(src) : Variant(src, f) /\ DupOf(src, f) = 0})
      [] m.kind \in {"thorough", "exhaustive"} -> [f \in Fld(src) |-> f]
      [] m.kind = "strip" -> <<>>
      [] m.kind = "numpy" -> IF HBug = "numpy_append"
                             THEN Asc(m.given) \o (IF m.il \in m.given THEN <<>> ELSE <<m.il>>) \o (IF m.xl \in m.given THEN <<>> ELSE <<m.xl>>)
                             ELSE Asc(m.given \cup {m.il, m.xl})

Count(table) == Cardinality({f \in DOMAIN table : table[f][2] = f})      \* headers.py:184-185

\* grid positions and ordinals
Grid(geo)   == 1..Len(geo)
RECURSIVE PosOfOrd(_, _, _)
PosOfOrd(geo, i, p) == IF geo[p] THEN (IF i = 1 THEN p ELSE PosOfOrd(geo, i - 1, p + 1)) ELSE PosOfOrd(geo, i, p + 1)
Pos(geo, i) == PosOfOrd(geo, i, 1)
OrdOf(geo, p) == Cardinality({q \in 1..p : geo[q]})
Regular(geo) == \A p \in Grid(geo) : geo[p]

\* the array captured for field k while the planes are read: by grid position, holes left zero
Captured(src, geo, k) == [p \in Grid(geo) |-> IF geo[p] THEN src[k][OrdOf(geo, p)] ELSE 0]

AllEqual(a) == \A p \in DOMAIN a : a[p] = a[1]
Reclass(a)  == IF HBug = "first_last" THEN a[1] = a[Len(a)] ELSE AllEqual(a)

(***************************************************************************)
(* Reader side: HeaderwordInfo.get_header_dict (headers.py:102-126)        *)
(* template[f] = <<"const", v>> or <<"arr", k>> (k-th stored array, 1..)   *)
(***************************************************************************)
RECURSIVE Tpl(_, _, _, _)
Tpl(table, f, acc, nstored) ==
    IF f > Len(table) THEN [t |-> acc, n |-> nstored]
    ELSE LET row == table[f]
         IN  IF row[1] # 0 \/ row[2] = 0 THEN Tpl(table, f + 1, Append(acc, <<"const", row[1]>>), nstored)
             ELSE IF row[2] < f   \* the stored-as field is already in the dict: alias whatever it resolved to
                  THEN Tpl(table, f + 1, Append(acc, acc[row[2]]), nstored)
                  ELSE Tpl(table, f + 1, Append(acc, <<"arr", nstored + 1>>), nstored + 1)
Template(table) == Tpl(table, 1, <<>>, 0)

\* file = [table, narr, arrays (sequence of grid arrays)]
OpenOk(file) == Template(file.table).n = file.narr                     \* the assert in get_header_dict

MaskOf(file, m) ==     \* read.py get_unstructured_mask: the array the inline field resolves to, non-zero = populated
    LET e == IF HBug = "mask_any" THEN <<"arr", 1>> ELSE Template(file.table).t[m.il]
    IN  IF e[1] = "arr" /\ e[2] <= Len(file.arrays) THEN [p \in DOMAIN file.arrays[e[2]] |-> file.arrays[e[2]][p] # 0]
        ELSE <<>>

\* gen_trace_header(i)[f]: regular / 2-D files index the array by ordinal, irregular ones through the mask
Missing == -99999
\* tp = Template(file.table).t and mk = MaskOf(file, m) are passed in so that an evaluation over all (f, i) computes them once
ReadBackT(tp, mk, file, regular, f, i) ==
    LET e == tp[f]
    IN  IF e[1] = "const" THEN e[2]
        ELSE IF e[2] > Len(file.arrays) THEN Missing
        ELSE IF regular THEN file.arrays[e[2]][i]
        ELSE IF mk = <<>> \/ Cardinality({p \in DOMAIN mk : mk[p]}) < i THEN Missing
             ELSE file.arrays[e[2]][Pos(mk, i)]
ReadBack(file, m, regular, f, i) ==
    ReadBackT(Template(file.table).t, IF regular THEN <<>> ELSE MaskOf(file, m), file, regular, f, i)

(***************************************************************************)
(* The conversion as a state machine (one behaviour per input)             *)
(***************************************************************************)
VARIABLES src, geo, mode, pc, table, keys, cap, file

hvars == <<src, geo, mode, pc, table, keys, cap, file>>

Detect ==           \* HeaderwordInfo.__init__ / get_blank_header_info / NumpyConverter.__init__
    /\ pc = "detect"
    /\ table' = InitTable(src, mode)
    /\ keys' = InitKeys(src, mode)
    /\ pc' = "header"
    /\ UNCHANGED <<src, geo, mode, cap, file>>

WriteHeader ==      \* make_header: table and array count go into the first block before any plane is read
    /\ pc = "header"
    /\ file' = [table |-> table, narr |-> Count(table), arrays |-> <<>>]
    /\ pc' = "capture"
    /\ UNCHANGED <<src, geo, mode, table, keys, cap>>

Capture ==          \* io_thread_func* fill the arrays while planes are read (the NumPy route is given them)
    /\ pc = "capture"
    /\ cap' = [i \in 1..Len(keys) |-> Captured(src, geo, keys[i])]
    /\ pc' = "finish"
    /\ UNCHANGED <<src, geo, mode, table, keys, file>>

\* write_headers as a function of the state it finds (used by the Finish action and by the oracle Run)
FinishRec(tb, ks0, cp, fl, m) ==
    IF m.kind = "thorough"
    THEN LET keep == {i \in 1..Len(ks0) : ~Reclass(cp[i])}
             t2 == [f \in DOMAIN tb |->
                      IF \E i \in 1..Len(ks0) : ks0[i] = f /\ i \notin keep
                      THEN <<cp[CHOOSE i \in 1..Len(ks0) : ks0[i] = f][1], 0>> ELSE tb[f]]
             ks == Asc(keep)
         IN  [table |-> t2, keys |-> [j \in 1..Len(ks) |-> ks0[ks[j]]], cap |-> [j \in 1..Len(ks) |-> cp[ks[j]]],
              file |-> [table |-> IF HBug = "no_patch" THEN fl.table ELSE t2,
                        narr |-> IF HBug = "no_patch" THEN fl.narr ELSE Count(t2),
                        arrays |-> [j \in 1..Len(ks) |-> cp[ks[j]]]]]
    ELSE [table |-> tb, keys |-> ks0, cap |-> cp, file |-> [fl EXCEPT !.arrays = cp]]

Finish ==           \* write_headers: 'thorough' re-classification + in-place patch, then the arrays in dict order
    /\ pc = "finish"
    /\ LET r == FinishRec(table, keys, cap, file, mode)
       IN  table' = r.table /\ keys' = r.keys /\ cap' = r.cap /\ file' = r.file
    /\ pc' = "done"
    /\ UNCHANGED <<src, geo, mode>>

\* the whole conversion as one function (what the four actions compose to)
Run(s, g, m) ==
    LET t0 == InitTable(s, m)
        k0 == InitKeys(s, m)
    IN  FinishRec(t0, k0, [i \in 1..Len(k0) |-> Captured(s, g, k0[i])], [table |-> t0, narr |-> Count(t0), arrays |-> <<>>], m)

HNext == Detect \/ WriteHeader \/ Capture \/ Finish

(***************************************************************************)
(* Properties (state predicates on the finished file)                      *)
(***************************************************************************)
Done == pc = "done"
Reg == Regular(geo)

Exact == \A f \in Fld(src), i \in Trc(src) : ReadBack(file, mode, Reg, f, i) = src[f][i]
AllZero == \A f \in Fld(src), i \in Trc(src) : ReadBack(file, mode, Reg, f, i) = 0

\* the precondition the property gives for the default detection
HeuristicPre ==
    /\ \A f \in Fld(src) : ConstantF(src, f) \/ Variant(src, f)
    /\ \A f, g \in Fld(src) : (f # g /\ Variant(src, f) /\ Variant(src, g)) =>
                                 ~(FirstV(src, f) = FirstV(src, g) /\ LastV(src, f) = LastV(src, g))

PReadable   == Done => OpenOk(file)
PThorough   == (Done /\ mode.kind \in {"thorough", "exhaustive"}) => Exact
\* NumPy route: the arrays given (plus the default inline/crossline headers) read back exactly, every other field reads 0
PNumpy      == (Done /\ mode.kind = "numpy") =>
                  \A f \in Fld(src), i \in Trc(src) :
                      ReadBack(file, mode, Reg, f, i) = (IF f \in mode.given \cup {mode.il, mode.xl} THEN src[f][i] ELSE 0)
PHeuristic  == (Done /\ mode.kind = "heuristic" /\ HeuristicPre) => Exact
PStrip      == (Done /\ mode.kind = "strip") => AllZero
\* array order written = array order the reader derives from the table; the table names exactly the stored arrays
PTableNames == Done => /\ Len(file.arrays) = file.narr
                       /\ \A j \in 1..Len(keys) : Template(file.table).t[keys[j]] = <<"arr", j>>
\* get_tracefield_values(f): the stored array by grid position with zeros at holes
PGrid       == Done => \A j \in 1..Len(keys) : \A p \in Grid(geo) :
                          file.arrays[j][p] = (IF geo[p] THEN src[keys[j]][OrdOf(geo, p)] ELSE 0)
=============================================================================
