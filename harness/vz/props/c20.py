"""C20 source-data hash: the stored hash is the SHA-1 of the source's real float32 samples in trace order."""
import os
from fractions import Fraction as Fr

import numpy as np
import segyio

from .. import audit, env, inputs, par, writers

FINISH = dict(
    level='model_checking',
    rule='TLC proves for all small shapes / blockshapes (3-D and 2-D) that the stream fed to the hash is exactly the real planes/traces in '
         'order (MC_WriterData!HashIsSource); real conversions by every route x settings are compared with hashlib.sha1 of the source; '
         'every single-sample perturbation of a small cube must change the hash; re-blocking must carry it; non-trivial = distinct '
         '(route, shape, rate, blockshape | perturbed voxel)',
    assumptions=['SHA-1 is trusted; hash input = little-endian float32 bytes of every real trace in trace order'],
    trusted=['hashlib', 'numpy', 'segyio', 'TLC'])


def stored_hash(p):
    from seismic_zfp.read import SgzReader
    with env.quiet():
        with SgzReader(p) as r:
            return r.get_source_data_hash()


def _one(item):
    k, (route, shape, rate, bs, pert) = item
    d = env.subdir(f'c20-{os.getpid()}')
    cube = inputs.cube(shape, par.G['seed'] + (k if pert is None else 0))
    if pert == 'nonfinite':         # NaN and infinities are float32 samples like any other as far as the hash goes
        cube = cube.copy()
        flat = cube.reshape(-1)
        flat[1], flat[len(flat) // 2], flat[-1] = np.nan, np.inf, -np.inf
        pert = None
    if pert is not None:
        cube = cube.copy()
        v = cube[pert]
        cube[pert] = np.nextafter(v, np.float32(np.inf)) if pert[0] % 2 == 0 else -v if v != 0 else np.float32(1e-30)
    p = os.path.join(d, f'h{k}.sgz')
    try:
        if route in ('numpy', 'numpy-F', 'numpy-view'):      # the same samples in C order, Fortran order, as a strided reversed view
            arr = cube
            if route == 'numpy-F':
                arr = np.asfortranarray(cube)
            elif route == 'numpy-view':
                big = np.zeros((shape[0] * 2, shape[1], shape[2] + 3), dtype=np.float32)
                big[::-2, :, 1:-2] = cube
                arr = big[::-2, :, 1:-2]
            writers.numpy_to_sgz(p, arr, writers.rate_arg(rate), bs)
            src = cube
        elif route == 'numpy-reuse':     # one converter object, two outputs, the caller's array modified in between: the last file is judged
            from seismic_zfp.conversion import NumpyConverter
            arr = cube.copy()
            with env.quiet():
                with NumpyConverter(arr) as cv:
                    cv.run(p + '.first', bits_per_voxel=writers.rate_arg(rate), blockshape=bs)
                    arr[-1, -1, -1] += np.float32(1.5)
                    arr[0, 0, 0] = -arr[0, 0, 0] if arr[0, 0, 0] != 0 else np.float32(2.0)
                    cv.run(p, bits_per_voxel=writers.rate_arg(rate), blockshape=bs)
            os.remove(p + '.first')
            src = arr
        elif route in ('segy', 'segy-iops', 'segy-ibm', 'segy-ibm-iops-odd', 'segy-ibm-odd', 'segy-reuse', 'segy-strip', 'segy-thorough', 'segy-window', 'segy-window-iops', 'segy-windowil', 'segy-windowil-iops'):
            sgy = os.path.join(d, f'h{k}.sgy')
            inputs.write_segy(sgy, cube, np.arange(shape[0]) + 1, np.arange(shape[1]) + 1, np.arange(shape[2]) * 4.0,
                              fmt=1 if route.startswith('segy-ibm') else 5)
            if route.endswith('-odd'):      # IBM words a decoder can get wrong without anyone noticing on ordinary data: negative zero, an
                # unnormalised fraction, a value below the IEEE normal range - written into samples of a later inline, in place
                tb = 240 + 4 * shape[2]
                with open(sgy, 'r+b') as fh:
                    for t, j, word in ((shape[1] + 1, 2, 0x80000000), (shape[1] + 2, 3, 0x41010000), (2 * shape[1], 1, 0x21100000), (1, 0, 0x80000000)):
                        fh.seek(3600 + t * tb + 240 + 4 * j)
                        fh.write(word.to_bytes(4, 'big'))
            with segyio.open(sgy, strict=False) as f:
                src = np.stack([np.asarray(f.trace[t]) for t in range(f.tracecount)]).astype(np.float32)
            if route.startswith('segy-window'):        # an ordinal window: the hash is that of the windowed traces
                a, b, c0, d0 = (1, shape[0] - 1, 2, shape[1]) if 'il' not in route else (2, shape[0], 0, shape[1])      # (whole inlines from the third one on: every crossline kept)
                src = src.reshape(shape)[a:b, c0:d0].reshape(-1, shape[2])
                writers.segy_to_sgz(sgy, p, writers.rate_arg(rate), bs, reduce_iops=route.endswith('-iops'), window=(a, b, c0, d0))
            elif route == 'segy-reuse':       # one converter object used for several outputs: the last one is judged
                from seismic_zfp.conversion import SegyConverter
                with env.quiet():
                    with SegyConverter(sgy) as cv:
                        cv.run(p + '.first', bits_per_voxel=16, blockshape=None)
                        cv.run(p, bits_per_voxel=writers.rate_arg(rate), blockshape=bs)
                os.remove(p + '.first')
            else:
                writers.segy_to_sgz(sgy, p, writers.rate_arg(rate), bs, reduce_iops=(route in ('segy-iops', 'segy-ibm-iops-odd')),
                                    header_detection={'segy-strip': 'strip', 'segy-thorough': 'thorough'}.get(route, 'heuristic'))
        else:   # 2d
            sgy = os.path.join(d, f'h{k}.sgy')
            hdrs = [{segyio.TraceField.CDP: t + 1, segyio.TraceField.CDP_X: 10 * t} for t in range(shape[0])]
            inputs.write_segy_traces(sgy, cube, np.arange(shape[1]) * 4.0, hdrs)
            src = cube
            writers.segy_to_sgz(sgy, p, writers.rate_arg(rate), bs, header_detection={'2d-strip': 'strip', '2d-exhaustive': 'exhaustive'}.get(route, 'heuristic'))
        h = stored_hash(p)
        out = {'hash': h, 'sha1': audit.sha1_of_traces(src)}
        if par.G.get('reblock') and route == 'numpy' and rate == 2 and bs == (4, 4, -1):
            from seismic_zfp.conversion import SgzConverter
            q = p + '.adv'
            if k % 2 == 0:      # a source that lives under a very long (legal) path
                deep = os.path.join(d, *(['d' * 200] * 5))
                os.makedirs(deep, exist_ok=True)
                p2 = os.path.join(deep, 'src.sgz')
                os.replace(p, p2)
                p = p2
            with env.quiet():
                with SgzConverter(p) as c:
                    c.convert_to_adv_sgz(q)
            out['reblocked'] = stored_hash(q)
            os.remove(q)
        os.remove(p)
        return out
    except BaseException as e:
        if isinstance(e, (KeyboardInterrupt, SystemExit, MemoryError)):
            raise
        return {'error': f'{type(e).__name__}: {e}'}


def plan(run):
    quick = run.tier == 'quick'
    rng = np.random.default_rng(run.seed)
    P = []
    shapes3 = [(5, 6, 70), (9, 4, 33), (4, 4, 8), (2, 3, 5)] if quick else [(5, 6, 70), (9, 4, 33), (4, 4, 8), (2, 3, 5), (13, 9, 130), (8, 8, 64), (7, 17, 20)]
    for shape in shapes3:
        for rate, bs in ((16, (4, 4, -1)), (32, (8, 8, 16)), (2, (4, 4, -1)), (Fr(1, 2), (4, 4, -1)), (32, (4, 8, 32)), (32, (16, 16, 4))):
            P.append(('numpy', shape, rate, bs, None))
        for route in ('segy', 'segy-iops', 'segy-ibm'):
            for rate, bs in ((16, None), (32, (8, 8, 16))):
                P.append((route, shape, rate, bs, None))
    # crossline and sample extents aligned to the blockshape, inline extent not (a plane-set buffer without x/z padding)
    for shape, rate, bs in (((6, 8, 64), 32, (4, 4, -1)), ((5, 4, 128), 16, (4, 4, -1)), ((9, 8, 16), 32, (8, 8, 16)), ((9, 16, 8), 16, (16, 16, -1)),
                            ((5, 8, 256), 8, None)):
        for route in ('numpy', 'segy', 'segy-iops', 'segy-ibm'):
            if not (route == 'numpy' and bs is None):
                P.append((route, shape, rate, bs, None))
    for shape, rate, bs in (((5, 6, 70), 8, None), ((9, 4, 33), 32, (8, 8, 16))):
        P.append(('segy-reuse', shape, rate, bs, None))
        P.append(('numpy-reuse', shape, rate, (4, 4, -1) if bs is None else bs, None))
        P.append(('segy-ibm-odd', shape, rate, bs, None))
        P.append(('segy-ibm-iops-odd', shape, rate, bs, None))
    for shape, rate, bs in (((5, 6, 70), 16, (4, 4, -1)), ((9, 4, 33), 32, (8, 8, 16)), ((6, 8, 64), 32, (4, 4, -1)), ((9, 9, 9), 32, (16, 16, 4))):
        P.append(('numpy-F', shape, rate, bs, None))
        P.append(('numpy-view', shape, rate, bs, None))
    # every header-detection mode (the hash does not depend on it)
    for route in ('segy-window', 'segy-window-iops', 'segy-windowil', 'segy-windowil-iops'):
        P.append((route, (6, 7, 20), 16, None, None))
        P.append((route, (9, 10, 33), 32, (8, 8, 16), None))
    for route in ('segy-strip', 'segy-thorough'):
        P.append((route, (5, 6, 70), 16, None, None))
        P.append((route, (9, 4, 33), 32, (8, 8, 16), None))
    for route in ('2d-strip', '2d-exhaustive'):
        P.append((route, (9, 70), 8, (1, 4, -1), None))
    # sample counts that are an exact multiple of the block length (no sample padding), 2-D and 3-D
    for shape, rate, bs in (((9, 128), 32, (1, 8, 128)), ((5, 256), 16, (1, 16, -1)), ((12, 64), 32, (1, 16, 64)), ((4, 512), 16, (1, 4, -1))):
        P.append(('2d', shape, rate, bs, None))
    for shape, rate, bs in (((5, 6, 32), 32, (8, 8, 16)), ((4, 5, 128), 16, None), ((9, 9, 8), 32, (16, 16, 4))):
        for route in ('numpy', 'segy', 'segy-iops'):
            if not (route == 'numpy' and bs is None):
                P.append((route, shape, rate, bs, None))
    for route, shape, rate, bs in (('numpy', (5, 6, 20), 16, (4, 4, -1)), ('segy', (5, 6, 20), 16, None), ('segy-iops', (5, 6, 20), 32, (8, 8, 16)), ('2d', (9, 40), 16, (1, 4, -1))):
        P.append((route, shape, rate, bs, 'nonfinite'))
    shapes2 = [(9, 70), (4, 8), (21, 33), (2, 2)] if quick else [(9, 70), (4, 8), (21, 33), (2, 2), (16, 64), (17, 65), (33, 300)]
    for shape in shapes2:
        for rate, bs in ((8, (1, 4, -1)), (16, (1, 16, -1)), (4, None), (32, (1, 8, 128))):
            P.append(('2d', shape, rate, bs, None))
    # every single-sample perturbation of a small cube / section
    base3, base2 = (3, 2, 5), (5, 6)
    P.append(('numpy', base3, 16, (4, 4, -1), None))
    for idx in np.ndindex(*base3):
        P.append(('numpy', base3, 16, (4, 4, -1), tuple(int(i) for i in idx)))
    P.append(('2d', base2, 8, (1, 4, -1), None))
    for idx in np.ndindex(*base2):
        P.append(('2d', base2, 8, (1, 4, -1), tuple(int(i) for i in idx)))
    return P


def run(run):
    run.mc('MC_WriterData', f'MC_WriterData_{run.tier}')
    P = plan(run)
    par.G['seed'] = run.seed
    par.G['reblock'] = True
    res = par.pmap(_one, list(enumerate(P)), chunksize=3)
    base = {}
    for (route, shape, rate, bs, pert), r in zip(P, res):
        case = {'route': route, 'shape': list(shape), 'rate': str(rate), 'blockshape': list(bs) if bs else None, 'perturbed': (pert if isinstance(pert, str) else list(pert)) if pert else None}
        run.case(case)
        if isinstance(r, par.Crash) or 'error' in r:
            run.fail('C20.converts', case, str(r), 'a file')
            continue
        run.check(r['hash'] == r['sha1'], f'C20.hash-is-sha1[{route}]', case, r['hash'], r['sha1'])
        if 'reblocked' in r:
            run.check(r['reblocked'] == r['hash'], 'C20.reblock-carries-hash', case, r['reblocked'], r['hash'])
        key = (route, tuple(shape), str(rate), str(bs))
        if pert is None:
            base.setdefault((route, tuple(shape)), set()).add(r['hash']) if tuple(shape) not in ((3, 2, 5), (5, 6)) else None
            if tuple(shape) in ((3, 2, 5), (5, 6)):
                base[('base', route)] = r['hash']
        else:
            run.check(r['hash'] != base.get(('base', route)), 'C20.perturbation-changes-hash', case, r['hash'], 'different from the unperturbed hash')


def replay(run, rep):
    c = rep['case']
    par.G['seed'] = run.seed
    par.G['reblock'] = True
    P = plan(run)
    for k, p in enumerate(P):
        if p[0] == c['route'] and list(p[1]) == c['shape'] and str(p[2]) == c['rate'] and (list(p[3]) if p[3] else None) == c['blockshape'] \
                and ((p[4] if isinstance(p[4], str) else list(p[4])) if p[4] else None) == c['perturbed']:
            r = _one((k, p))
            if 'error' in r:
                run.fail('C20.converts', c, r['error'], None)
            else:
                run.check(r['hash'] == r['sha1'], rep['clause'], c, r['hash'], r['sha1'])
                if 'reblocked' in r:
                    run.check(r['reblocked'] == r['hash'], 'C20.reblock-carries-hash', c, r['reblocked'], r['hash'])
            return
