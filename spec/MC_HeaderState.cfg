CONSTANT Mask <- MaskSmall
CONSTANT NA = 2
CONSTANT HsBug = "none"
CONSTANT D = 40
SPECIFICATION Spec
VIEW View
PROPERTY PRight
PROPERTY PFaultSurfaces
INVARIANT PModeMatches
CHECK_DEADLOCK FALSE
