CONSTANT RMajor = 3
CONSTANT RMinor = 8
CONSTANT RPatch = 8
SPECIFICATION Spec
INVARIANT Bijective
INVARIANT OrderPreserved
INVARIANT GatesConsistent
CHECK_DEADLOCK FALSE
