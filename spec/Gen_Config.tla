------------------------------ MODULE Gen_Config ------------------------------
(* oracle mode: SgzConfig!Resolve on the grid points of a JSON file; answers [ok, rate, shape] *)
EXTENDS SgzConfig, Json, IOUtils, TLC
Items == JsonDeserialize(IOEnv.VZ_IN).items
Out(it) == LET o == Resolve(it.dim, [str |-> it.str, n |-> it.n, d |-> it.d], it.s)
           IN  IF o.ok THEN [ok |-> TRUE, rate |-> o.rate, shape |-> o.shape, valid |-> Valid(it.dim, o.rate, o.shape)]
               ELSE [ok |-> FALSE, rate |-> <<0, 1>>, shape |-> <<0, 0, 0>>, valid |-> FALSE]
ASSUME JsonSerialize(IOEnv.VZ_OUT, [items |-> [k \in 1..Len(Items) |-> Out(Items[k])]])
VARIABLE x
Init == x = 0
Next == x' = x
Spec == Init /\ [][Next]_x
=============================================================================
