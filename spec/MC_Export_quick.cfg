CONSTANT HBug = "none"
CONSTANT EBug = "none"
CONSTANT NFm = 3
CONSTANT Vals = {0, 1, 2}
SPECIFICATION Spec
INVARIANT PRoundTrip
CHECK_DEADLOCK FALSE
