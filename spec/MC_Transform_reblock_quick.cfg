CONSTANT DiskBlockBytes = 64
CONSTANT TBug = "none"
CONSTANT Tier = "quick"
CONSTANT Part = "reblock"
SPECIFICATION Spec
INVARIANT PCrop
INVARIANT PRefuse
INVARIANT PReblock
CHECK_DEADLOCK FALSE
