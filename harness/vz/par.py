"""Process-parallel map over cases (fork: workers inherit the prepared files/oracle answers copy-on-write).
A worker that dies (zfpy reading past a short buffer, say) does not hang the run: its chunk is re-run item by item
and the item that kills its process is reported as CRASH."""
import os
import pickle
import tempfile

G = {}          # set by the caller before pmap; read by the worker function


class Crash:
    def __init__(self, status):
        self.status = status

    def __repr__(self):
        return f'CRASH(status={self.status})'


def _run_chunk(fn, chunk, path):
    pid = os.fork()
    if pid == 0:
        code = 0
        try:
            out = [fn(x) for x in chunk]
            with open(path, 'wb') as f:
                pickle.dump(out, f)
        except BaseException:
            import traceback
            traceback.print_exc()
            code = 3
        finally:
            os._exit(code)
    return pid


def pmap(fn, items, procs=None, chunksize=None):
    items = list(items)
    procs = procs or min(16, os.cpu_count() or 1)
    if len(items) < 4 or procs == 1 or os.environ.get('VZ_SERIAL'):
        return [fn(x) for x in items]
    chunksize = chunksize or max(1, min(64, len(items) // (procs * 4)))
    chunks = [(i, items[i:i + chunksize]) for i in range(0, len(items), chunksize)]
    results = [None] * len(items)
    d = tempfile.mkdtemp(prefix='vzpar-')
    pending = list(chunks)
    running = {}
    try:
        while pending or running:
            while pending and len(running) < procs:
                i, ch = pending.pop(0)
                path = os.path.join(d, f'{i}-{len(ch)}.pkl')
                running[_run_chunk(fn, ch, path)] = (i, ch, path)
            pid, status = os.wait()
            if pid not in running:
                continue
            i, ch, path = running.pop(pid)
            if status == 0 and os.path.exists(path):
                with open(path, 'rb') as f:
                    out = pickle.load(f)
                os.remove(path)
                results[i:i + len(ch)] = out
            elif len(ch) == 1:
                results[i] = Crash(status)
            else:
                pending = [(i + k, [x]) for k, x in enumerate(ch)] + pending
    finally:
        import shutil
        shutil.rmtree(d, ignore_errors=True)
    return results
