CONSTANT DiskBlockBytes = 64
CONSTANT Bug = "none"
CONSTANT Tier = "thorough"
SPECIFICATION Spec
INVARIANT Coherent
INVARIANT Layout
CHECK_DEADLOCK FALSE
