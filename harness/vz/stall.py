"""Stall injection on the REAL threads of a conversion (no cooperative scheduler): one chosen point - the k-th time a given
thread passes a given queue / file operation - is held for a while, everything else runs free.  Used by C16 as the
protocol-independent fallback: whatever the threads do between the points, a correct pipeline returns the sequential file."""
import builtins
import os
import contextlib
import queue
import threading
import time


def role():
    n = threading.current_thread().name
    for r in ('compressor', 'writer'):
        if r in n:
            return r
    return 'main'


class Ctl:
    def __init__(self, out_path, target=None, delay=0.25):
        self.out_path, self.target, self.delay = out_path, target, delay
        self.count = {}
        self.keys = []
        self.lock = threading.Lock()
        self.returned = False
        self.late = 0
        self.errors = []

    def pt(self, kind):
        with self.lock:
            k = (role(), kind)
            i = self.count.get(k, 0)
            self.count[k] = i + 1
            key = [k[0], k[1], i]
            self.keys.append(key)
        if self.target is None:
            return
        # one key [role, kind, i], or several of them (all are held); i == '*' holds every occurrence, briefly
        targets = self.target if (self.target and isinstance(self.target[0], (list, tuple))) else [self.target]
        for t in targets:
            t = list(t)
            if t == key:
                time.sleep(self.delay)
            elif t[2] == '*' and t[:2] == key[:2]:
                time.sleep(self.delay / 8)


def make_queue(ctl):
    tl = threading.local()

    class StallQueue(queue.Queue):
        def _in(self, f, *a, **k):
            tl.inside = getattr(tl, 'inside', 0) + 1
            try:
                return f(*a, **k)
            finally:
                tl.inside -= 1

        def get(self, *a, **k):
            item = self._in(super().get, *a, **k)
            ctl.pt('after-get')
            return item

        def put(self, *a, **k):
            ctl.pt('before-put')
            self._in(super().put, *a, **k)
            ctl.pt('after-put')

        def task_done(self):
            ctl.pt('before-task_done')
            self._in(super().task_done)
            ctl.pt('after-task_done')

        def join(self):
            self._in(super().join)
            ctl.pt('after-join')

        # the public counter, read without the queue's lock by code that polls instead of joining: a point like any other
        # (the queue's own methods read it too, under the lock: those reads are not points)
        @property
        def unfinished_tasks(self):
            v = self.__dict__.get('_ut', 0)
            if not getattr(tl, 'inside', 0):
                ctl.pt('after-peek')
            return v

        @unfinished_tasks.setter
        def unfinished_tasks(self, v):
            self.__dict__['_ut'] = v
    return StallQueue


class StallFile:
    def __init__(self, ctl, f):
        self.ctl, self.f = ctl, f
        self.name = f.name

    def write(self, data):
        self.ctl.pt('before-write')
        if self.ctl.returned:
            self.ctl.late += 1
        try:
            return self.f.write(data)
        except ValueError as e:          # write to a closed file: the caller went on without this block
            self.ctl.late += 1
            self.ctl.errors.append(str(e))
            raise

    def __getattr__(self, n):
        return getattr(self.f, n)

    def __enter__(self):
        return self

    def __exit__(self, *exc):
        self.f.close()


@contextlib.contextmanager
def installed(ctl):
    import seismic_zfp.conversion as cv
    import seismic_zfp.conversion_utils as cu

    def mk_open(path, mode='r', *a, **kw):
        f = builtins.open(path, mode, *a, **kw)
        if path == ctl.out_path and ('w' in mode or '+' in mode):
            return StallFile(ctl, f)
        return f
    saved = [(cu, 'Queue', cu.__dict__.get('Queue')), (cv, 'open', cv.__dict__.get('open')), (cu, 'open', cu.__dict__.get('open')),
             (cu, 'Thread', cu.__dict__.get('Thread'))]
    cu.Queue = make_queue(ctl)

    class StallThread(threading.Thread):
        """a thread that is neither the compressor nor the writer (a helper some edit introduced) can be made to start late"""
        def run(self):
            name = getattr(getattr(self, '_target', None), '__name__', '')
            if name not in ('compressor', 'writer'):
                with ctl.lock:
                    i = ctl.count.get(('helper', 'start'), 0)
                    ctl.count[('helper', 'start')] = i + 1
                    ctl.keys.append(['helper', 'start', i])
                if ctl.target is not None and not isinstance(ctl.target[0], (list, tuple)) and list(ctl.target)[:2] == ['helper', 'start']:
                    time.sleep(max(1.5, 6 * ctl.delay))
            super().run()
    cu.Thread = StallThread
    cv.open = mk_open
    cu.open = mk_open
    try:
        yield
    finally:
        for m, n, old in saved:
            if old is None:
                delattr(m, n)
            else:
                setattr(m, n, old)


def execute(thunk, out_path, target=None, delay=0.25, settle=0.4, limit=40):
    """-> dict(keys, data, late, error)"""
    ctl = Ctl(out_path, target, delay)
    err = None
    with installed(ctl):
        # the conversion runs in a thread of its own so that one that never returns (a join nobody satisfies) is reported, not waited for
        box = {}

        def body():
            try:
                thunk()
            except BaseException as e:
                box['err'] = f'{type(e).__name__}: {e}'
        t = threading.Thread(target=body, name='vz-conversion', daemon=True)
        t.start()
        t.join(limit)
        if t.is_alive():
            err = f'did not return within {limit} s'
        else:
            err = box.get('err')
        ctl.returned = True
        at_return = b''
        if os.path.exists(out_path):
            with builtins.open(out_path, 'rb') as f:
                at_return = f.read()
        time.sleep(settle if target is not None else 0.05)
    later = b''
    if os.path.exists(out_path):
        with builtins.open(out_path, 'rb') as f:
            later = f.read()
    return {'keys': ctl.keys, 'data': at_return, 'changed_after_return': later != at_return, 'late': ctl.late, 'error': err, 'thread_errors': ctl.errors[:2]}
