----------------------------- MODULE MC_Partial -----------------------------
(* every stopping point of every writer shape (0..MaxBlk blocks, 0..MaxArr arrays, with and without the 'thorough' patches, fresh
   path or a longer old file at the path).  PBug = presize / no_trunc / footer_first / late_len must be rejected. *)
EXTENDS SgzPartial
=============================================================================
