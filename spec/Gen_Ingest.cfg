CONSTANT IBug = "none"
SPECIFICATION Spec
