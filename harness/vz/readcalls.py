"""Read calls: generation of argument tuples for a file descriptor, invocation on the real reader,
comparison of the observed outcome with the outcomes SgzApi.Ideal allows."""
import numpy as np

from . import codec
from .tlc import NONE

ZS = {'s': 0, 'd': 2}       # model sample axis: coordinate 2k <-> ordinal k; odd = absent coordinate


def cands(n, b, extra=()):
    """bounds in [0, n] on every residue class mod 4 and mod b that n allows.  Every multiple of the blockshape is kept
    with its neighbours; of the multiples of 4 only the first and last few (otherwise a long axis dilutes the block boundaries)"""
    c = {0, 1, 2, 3, 4, 5, 6, 7, n - 3, n - 2, n - 1, n}
    mult4 = list(range(0, n + 5, 4))
    for k in mult4[:4] + mult4[-3:]:
        c |= {k - 1, k, k + 1, k + 2, k + 3}
    for k in range(0, n + b + 1, b):
        c |= {k - 1, k, k + 1, k + 2, k + 3}
    c |= set(extra)
    return sorted(v for v in c if 0 <= v <= n)


def boundary_windows(n, b):
    """sample windows that start at / just after / just before every block boundary, and ones that span it"""
    w = []
    for k in range(b, n, b):
        w += [(k, min(n, k + 4)), (k + 1, min(n, k + 5)), (k - 1, min(n, k + 3)), (max(0, k - 5), k), (1, min(n, k + 2))]
    return sorted({x for x in w if 0 <= x[0] < x[1] <= n})


def thin(vals, rng, k):
    vals = list(vals)
    if len(vals) <= k:
        return vals
    keep = {vals[0], vals[-1], vals[1], vals[-2]}
    rest = [v for v in vals if v not in keep]
    keep |= set(rng.choice(rest, size=k - len(keep), replace=False).tolist())
    return sorted(keep)


def windows(c, rng, k):
    pairs = [(a, b) for a in c for b in c if a < b]
    if len(pairs) <= k:
        return pairs
    idx = rng.choice(len(pairs), size=k, replace=False)
    return [pairs[i] for i in sorted(idx)]


def tracecount(F):
    if F['dim'] == 2:
        return F['n'][1]
    return sum(F['mask']) if F['mask'] else F['n'][0] * F['n'][1]


def in_range_calls(F, rng, budget=300):
    ni, nx, nz = F['n']
    bi, bx, bz = F['b']
    calls = []
    if F['dim'] == 2:
        ct, cz = cands(nx, bx), cands(nz, bz)
        for (a, b) in windows(thin(ct, rng, 14), rng, budget // 6):
            for (c, d) in windows(thin(cz, rng, 10), rng, 4):
                calls.append(('read_subplane', [a, b, c, d]))
        calls.append(('read_subplane', [0, nx, 0, nz]))
        wz = windows(thin(cz, rng, 9), rng, 14)
        for t in thin(range(nx), rng, max(8, budget // 6)):
            calls.append(('get_trace', [t, NONE, NONE]))
            calls.append(('gen_trace_header', [t]))
            w = wz[rng.integers(len(wz))]
            calls.append(('get_trace', [t, w[0], w[1]]))
            calls.append(('get_trace_by_coord', [t, 2 * w[0], 2 * w[1]]))
            calls.append(('get_trace_by_coord', [t, NONE, NONE]))
        bw = boundary_windows(nz, bz)
        for j, w in enumerate(bw):
            t = (j * 5) % nx
            calls.append(('get_trace', [t, w[0], w[1]]))
            calls.append(('read_subplane', [max(0, t - 1), min(nx, t + 2), w[0], w[1]]))
        return calls
    ci, cx, cz = cands(ni, bi), cands(nx, bx), cands(nz, bz)
    q = max(4, budget // 30)
    for i in thin(range(ni), rng, q):
        calls.append(('read_inline', [i]))
        calls.append(('read_inline_number', [F['il']['s'] + i * F['il']['d']]))
    for x in thin(range(nx), rng, q):
        calls.append(('read_crossline', [x]))
        calls.append(('read_crossline_number', [F['xl']['s'] + x * F['xl']['d']]))
    for z in thin([v for v in cz if v < nz], rng, q):
        calls.append(('read_zslice', [z]))
        calls.append(('read_zslice_coord', [2 * z]))
    calls.append(('read_volume', []))
    wi, wx, wz = windows(thin(ci, rng, 9), rng, 14), windows(thin(cx, rng, 9), rng, 14), windows(thin(cz, rng, 9), rng, 14)
    nbox = budget // 2
    for k in range(nbox):
        a = wi[rng.integers(len(wi))]
        b = wx[rng.integers(len(wx))]
        c = wz[rng.integers(len(wz))]
        calls.append(('read_subvolume', [a[0], a[1], b[0], b[1], c[0], c[1]]))
    for w in wi:
        calls.append(('read_subvolume', [w[0], w[1], 0, nx, 0, nz]))
    for w in wx:
        calls.append(('read_subvolume', [0, ni, w[0], w[1], 0, nz]))
    for w in wz:
        calls.append(('read_subvolume', [0, ni, 0, nx, w[0], w[1]]))
    tc = tracecount(F)
    for t in thin(range(tc), rng, q * 2):
        calls.append(('get_trace', [t, NONE, NONE]))
        calls.append(('gen_trace_header', [t]))
        w = wz[rng.integers(len(wz))]
        calls.append(('get_trace', [t, w[0], w[1]]))
        calls.append(('get_trace_by_coord', [t, 2 * w[0], 2 * w[1]]))
        calls.append(('get_trace_by_coord', [t, NONE, NONE]))
    for j, w in enumerate(boundary_windows(nz, bz)[:20]):
        calls.append(('get_trace', [(j * 7) % tc, w[0], w[1]]))
    # diagonal ordinals: a sample plus every ordinal next to where the formulas change branch (0, the difference and the extents)
    cds = sorted(set(thin(range(-nx + 1, ni), rng, q)) | {v for v in (-1, 0, 1, ni - nx - 1, ni - nx, ni - nx + 1, nx - ni, -nx + 1, ni - 1) if -nx + 1 <= v <= ni - 1})
    for cd in cds:
        calls.append(('read_correlated_diagonal', [cd, NONE, NONE, NONE, NONE]))
        ln = min(ni - cd, nx) if cd >= 0 else min(ni, nx + cd)
        if ln >= 1:
            a = int(rng.integers(0, ln))
            b = int(rng.integers(a + 1, ln + 1))
            w = wz[rng.integers(len(wz))]
            calls.append(('read_correlated_diagonal', [cd, a, b, w[0], w[1]]))
            calls.append(('read_correlated_diagonal', [cd, a, b, NONE, NONE]))
            calls.append(('read_correlated_diagonal', [cd, NONE, NONE, w[0], w[1]]))
    ads = sorted(set(thin(range(0, ni + nx - 1), rng, q)) | {v for v in (0, nx - 2, nx - 1, nx, nx + 1, ni - 2, ni - 1, ni, ni + 1, ni + nx - 2) if 0 <= v <= ni + nx - 2})
    for ad in ads:
        calls.append(('read_anticorrelated_diagonal', [ad, NONE, NONE, NONE, NONE]))
        ln = min(ni, ad + 1) - max(0, ad - nx + 1)
        if ln >= 1:
            a = int(rng.integers(0, ln))
            b = int(rng.integers(a + 1, ln + 1))
            w = wz[rng.integers(len(wz))]
            calls.append(('read_anticorrelated_diagonal', [ad, a, b, w[0], w[1]]))
    return calls


def out_of_range_calls(F, rng, budget=300):
    """argument tuples with at least one component outside its valid range (C14)"""
    ni, nx, nz = F['n']
    bi, bx, bz = F['b']
    pi, px, pz = [-(-n // b) * b for n, b in zip(F['n'], F['b'])]
    calls = []

    def bad(n, p):
        v = {-1, -2, -n, -n - 1, -n + 1, n, n + 1, n + 2, n + 3, p - 1, p, p + 1, n + 1000, -1000, 2 * p}
        return sorted(x for x in v if not 0 <= x < n)

    def badwin(n, p):
        w = {(0, n + 1), (0, p), (n - 1, p), (n, p), (n, n + 1), (-1, n), (-1, 1), (-n, n), (1, 1), (0, 0), (n, n),
             (3, 2), (n, 0), (n - 1, n + 3), (p - 1, p), (0, n + 1000), (-4, 0), (2, 1), (n + 1, n + 2), (p, p + 4)}
        return sorted(x for x in w if not (0 <= x[0] < x[1] <= n))

    if F['dim'] == 2:
        for v in bad(nx, px):
            calls.append(('get_trace', [v, NONE, NONE]))
            calls.append(('get_trace', [v, 0, min(nz, 3)]))
            calls.append(('gen_trace_header', [v]))
        for t in thin(range(nx), rng, 4):
            for w in badwin(nz, pz):
                calls.append(('get_trace', [t, w[0], w[1]]))
            for (a, b) in ((-2, 4), (0, 2 * nz + 2), (0, 2 * pz), (2 * nz, 2 * nz + 2), (1, 4), (0, 2 * nz + 1), (4, 2), (2, 2)):
                calls.append(('get_trace_by_coord', [t, a, b]))
        for w in badwin(nx, px):
            calls.append(('read_subplane', [w[0], w[1], 0, nz]))
            calls.append(('read_subplane', [w[0], w[1], 1, min(nz, 3)]))
        for w in badwin(nz, pz):
            calls.append(('read_subplane', [0, nx, w[0], w[1]]))
            calls.append(('read_subplane', [1, min(nx, 3), w[0], w[1]]))
        for op, a in (('read_inline', [0]), ('read_crossline', [0]), ('read_zslice', [0]), ('read_volume', []),
                      ('read_subvolume', [0, 1, 0, 1, 0, 1]), ('read_correlated_diagonal', [0, NONE, NONE, NONE, NONE]),
                      ('read_anticorrelated_diagonal', [0, NONE, NONE, NONE, NONE]), ('read_inline_number', [0]),
                      ('read_crossline_number', [0]), ('read_zslice_coord', [0])):
            calls.append((op, a))
        return calls
    calls.append(('read_subplane', [0, 1, 0, 1]))
    for v in bad(ni, pi):
        calls.append(('read_inline', [v]))
    for v in bad(nx, px):
        calls.append(('read_crossline', [v]))
    for v in bad(nz, pz):
        calls.append(('read_zslice', [v]))
    il, xl = F['il'], F['xl']
    for k in (-1, ni, ni + 1, pi - 1, pi, -ni):
        if not 0 <= k < ni:
            calls.append(('read_inline_number', [il['s'] + k * il['d']]))
    if abs(il['d']) > 1:
        calls.append(('read_inline_number', [il['s'] + 1]))
    for k in (-1, nx, nx + 1, px - 1, px, -nx):
        if not 0 <= k < nx:
            calls.append(('read_crossline_number', [xl['s'] + k * xl['d']]))
    if abs(xl['d']) > 1:
        calls.append(('read_crossline_number', [xl['s'] + 1]))
    for c in (-2, -1, 1, 2 * nz, 2 * nz + 2, 2 * pz - 2, 2 * pz, 2 * nz - 1, 2000 * nz):
        calls.append(('read_zslice_coord', [c]))
    for w in badwin(ni, pi):
        calls.append(('read_subvolume', [w[0], w[1], 0, nx, 0, nz]))
        calls.append(('read_subvolume', [w[0], w[1], 1, 2, 1, 2]))
    for w in badwin(nx, px):
        calls.append(('read_subvolume', [0, ni, w[0], w[1], 0, nz]))
        calls.append(('read_subvolume', [1, 2, w[0], w[1], 1, 2]))
    for w in badwin(nz, pz):
        calls.append(('read_subvolume', [0, ni, 0, nx, w[0], w[1]]))
        calls.append(('read_subvolume', [1, 2, 1, 2, w[0], w[1]]))
    tc = tracecount(F)
    grid = ni * nx
    for v in sorted({-1, -2, -tc, -tc - 1, tc, tc + 1, grid - 1, grid, grid + 1, pi * px - 1, pi * px, tc + 1000, -1000, pi * nx,
                     ni * px - 1}):
        if not 0 <= v < tc:
            calls.append(('get_trace', [v, NONE, NONE]))
            calls.append(('gen_trace_header', [v]))
            calls.append(('get_trace', [v, 0, min(nz, 4)]))
    ts = thin(range(tc), rng, 4)
    for t in ts:
        for w in badwin(nz, pz):
            calls.append(('get_trace', [t, w[0], w[1]]))
        for (a, b) in ((-2, 4), (0, 2 * nz + 2), (0, 2 * pz), (2 * nz, 2 * nz + 2), (1, 4), (0, 2 * nz + 1), (2 * (nz - 1), 2 * pz),
                       (4, 2), (2, 2), (0, 2 * nz + 4), (2 * pz - 2, 2 * pz)):
            calls.append(('get_trace_by_coord', [t, a, b]))
    for cd in (-nx, -nx - 1, ni, ni + 1, -px, pi, pi - 1, -px + 1, 1000, -1000):
        if not -nx < cd < ni:
            calls.append(('read_correlated_diagonal', [cd, NONE, NONE, NONE, NONE]))
    for ad in (-1, ni + nx - 1, ni + nx, pi + px - 2, pi + px - 1, 1000, -5):
        if not 0 <= ad < ni + nx - 1:
            calls.append(('read_anticorrelated_diagonal', [ad, NONE, NONE, NONE, NONE]))
    for cd in thin(range(-nx + 1, ni), rng, 5):
        ln = min(ni - cd, nx) if cd >= 0 else min(ni, nx + cd)
        for w in badwin(ln, ln + 3):
            calls.append(('read_correlated_diagonal', [cd, w[0], w[1], NONE, NONE]))
        for w in badwin(nz, pz)[:12]:
            calls.append(('read_correlated_diagonal', [cd, NONE, NONE, w[0], w[1]]))
            calls.append(('read_correlated_diagonal', [cd, 0, ln, w[0], w[1]]))
    for ad in thin(range(0, ni + nx - 1), rng, 5):
        ln = min(ni, ad + 1) - max(0, ad - nx + 1)
        for w in badwin(ln, ln + 3):
            calls.append(('read_anticorrelated_diagonal', [ad, w[0], w[1], NONE, NONE]))
        for w in badwin(nz, pz)[:12]:
            calls.append(('read_anticorrelated_diagonal', [ad, 0, ln, w[0], w[1]]))
    return calls


def real_z(reader, c):
    """model sample coordinate -> the reader's coordinate"""
    zs = reader.zslices
    if c == NONE:
        return None
    if c % 2 == 0 and 0 <= c // 2 < len(zs):
        return zs[c // 2]
    step = zs[-1] - zs[-2] if len(zs) > 1 else 1.0
    if c == 2 * len(zs):
        return zs[-1] + step
    return float(zs[0]) + (c / 2.0) * float(step)


def py(a):
    return None if a == NONE else a


def invoke(reader, op, a):
    """-> ('value', ndarray) | ('raise', exception class name, mro names)"""
    try:
        if op == 'read_zslice_coord':
            r = reader.read_zslice_coord(real_z(reader, a[0]))
        elif op == 'get_trace_by_coord':
            r = reader.get_trace_by_coord(a[0], real_z(reader, a[1]), real_z(reader, a[2]))
        elif op == 'get_trace':
            r = reader.get_trace(*[py(x) for x in a])
        elif op in ('read_correlated_diagonal', 'read_anticorrelated_diagonal'):
            r = getattr(reader, op)(a[0], py(a[1]), py(a[2]), py(a[3]), py(a[4]))
        elif op == 'gen_trace_header':
            r = reader.gen_trace_header(a[0])
            return ('header', {int(k): int(v) for k, v in r.items()})
        else:
            r = getattr(reader, op)(*a)
        return ('value', np.array(r))
    except BaseException as e:          # noqa - an exception is an outcome
        if isinstance(e, (KeyboardInterrupt, SystemExit, MemoryError)):
            raise
        return ('raise', type(e).__name__, [c.__name__ for c in type(e).__mro__])


def exc_matches(want, out):
    return want in out[2]


def squeeze(a):
    return np.squeeze(np.asarray(a))


def compare(out, alts, ref, header_of=None):
    """Is the observed outcome one of the allowed ones?  -> (ok, detail)"""
    for alt in alts:
        if alt['kind'] == 'raise':
            if out[0] == 'raise' and exc_matches(alt['exc'], out):
                return True, 'raise'
        elif alt['kind'] == 'header':
            if out[0] == 'header' and header_of is not None:
                exp = header_of(alt['trace'])       # the 89 standard fields; legacy extra keys are ignored
                if all(k in out[1] and out[1][k] == v for k, v in exp.items()):
                    return True, 'header'
        elif out[0] == 'value':
            exp = ref.select(alt)
            got = out[1]
            if squeeze(got).shape == squeeze(exp).shape and codec.same_bits(squeeze(got), squeeze(exp)):
                return True, 'value'
    return False, describe(out)


def describe(out):
    if out[0] == 'raise':
        return f'raise {out[1]}'
    if out[0] == 'header':
        return 'header ' + str({k: v for k, v in list(out[1].items())[:6]})
    a = out[1]
    flat = np.asarray(a).ravel()
    return f'value shape={a.shape} first={flat[:4].tolist()}'
