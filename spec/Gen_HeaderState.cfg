CONSTANT Mask <- MaskIn
CONSTANT D <- DIn
CONSTANT OpSeq <- AlphaIn
CONSTANT NA = 2
CONSTANT HsBug = "none"
SPECIFICATION Spec
PROPERTY PRight
PROPERTY PFaultSurfaces
INVARIANT PModeMatches
INVARIANT Emit
CHECK_DEADLOCK FALSE
