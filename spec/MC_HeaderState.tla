----------------------------- MODULE MC_HeaderState -----------------------------
(* Every history of header / trace calls on the four reader objects of one survey with holes (a plain reader, the emulator,
   its header accessor, its trace accessor), range reads that fail included.
   Two uses: (1) exhaustive - the state graph is finite once the history is left out of the VIEW, so the properties are checked for
   histories of ANY length; (2) generator - every history up to depth D is printed with the outcome of each step, and the harness
   replays it on the real objects (C15 pass `header-state`): same outcome class, same positions answered for, same number of range reads. *)
EXTENDS SgzHeaderState, SequencesExt
CONSTANTS D
VARIABLES hist, outs
mcvars == <<hsvars, hist, outs>>
MaskSmall == <<TRUE, TRUE, FALSE, TRUE, TRUE, FALSE, TRUE>>       \* 7 positions, 5 traces, holes at 2 and 5 (0-based)

Hole == CHOOSE p \in 1..Grid : ~Mask[p] /\ \A q \in 1..(p - 1) : Mask[q]     \* first hole (1-based position) = ordinal of the first trace past it
Probe == {Hole, Ntr - 1, Ntr, Grid}             \* a trace past the first hole, the last trace, the first ordinal that is no trace, the first beyond the grid
C(op, o, i, k, pad, j) == [op |-> op, o |-> o, i |-> i, k |-> k, pad |-> pad, j |-> j]
Ops == {C("gen_trace_header", o, i, 0, FALSE, 0) : o \in {"R", "E", "H"}, i \in Probe}
       \cup {C("gen_trace_header", "R", Hole, 0, FALSE, j) : j \in 1..(NA + 1)}
       \cup {C("read_variant_headers", o, 0, 0, pad, 0) : o \in {"R", "E"}, pad \in BOOLEAN}
       \cup {C("read_variant_headers", "R", 0, 0, pad, j) : pad \in BOOLEAN, j \in 1..(NA + 1)}
       \cup {C("get_tracefield_values", o, 0, k, FALSE, 0) : o \in {"R", "E"}, k \in 1..NA}
       \cup {C("get_tracefield_values", "R", 0, 1, FALSE, 1)}
       \cup {C("get_trace", o, i, 0, FALSE, 0) : o \in {"R", "T"}, i \in {Hole, Ntr}}
       \cup {C("get_trace", "R", Hole, 0, FALSE, 1)}
       \cup {C("clear", "R", 0, 0, FALSE, 0)}

OpSeq == SetToSeq(Ops)        \* (the generator is given the alphabet by the harness instead: hist holds indices into it)

Do(c) == CASE c.op = "gen_trace_header" -> GenHeader(c.o, c.i, c.j)
           [] c.op = "read_variant_headers" -> LoadCall(c.o, c.pad, c.j)
           [] c.op = "get_tracefield_values" -> TraceField(c.o, c.k, c.j)
           [] c.op = "get_trace" -> GetTrace(c.o, c.i, c.j)
           [] c.op = "clear" -> Clear(c.o)

Init == HsInit /\ hist = <<>> /\ outs = <<>>
Next == /\ Len(hist) < D
        /\ \E x \in 1..Len(OpSeq) : Do(OpSeq[x]) /\ hist' = Append(hist, x) /\ outs' = Append(outs, out')
Spec == Init /\ [][Next]_mcvars
View == hsvars

\* C15 / C17 / C14 on this state machine: whatever came before, a call raises or answers for the true positions
PRight == [][\A x \in 1..Len(OpSeq) : (hist' = Append(hist, x)) => Right(OpSeq[x], out')]_mcvars
\* a fault that was delivered surfaces (the call raises)
PFaultSurfaces == [][\A x \in 1..Len(OpSeq) : (hist' = Append(hist, x) /\ OpSeq[x].j >= 1 /\ out'.n >= OpSeq[x].j) => out'.kind = "raise"]_mcvars
\* the mode an object has committed to is the form of every array it holds (what makes indexing by ordinal meaningful)
PModeMatches == \A o \in Objs : \A k \in 1..NA : arr[Store(o)][k] # "none" => (flag[o] = arr[Store(o)][k] \/ HsBug = "shared")
Emit == Len(hist) = D => PrintT(<<"HS", hist, [t \in 1..Len(outs) |-> <<outs[t].kind, outs[t].exc, outs[t].pos, outs[t].n>>]>>)
=============================================================================
