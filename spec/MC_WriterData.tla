--------------------------- MODULE MC_WriterData ---------------------------
(* every small shape x every blockshape family at a scaled disk block: the writer's unit order is the format's.
   Staged enumeration (blockshape, then one extent per step) so that TLC's workers share the work. *)
EXTENDS SgzWriterData, TLC
CONSTANT Tier
VARIABLES b, ns
Q == Tier = "quick"
File(dim, n, bb) == [dim |-> dim, n |-> n, b |-> bb, ub |-> 16, hblk |-> 2, padfoot |-> TRUE, narr |-> 0, ntr |-> 0]
Ns(m) == IF m = 1 THEN {1} ELSE IF Q THEN {2, m - 1, m, m + 1, 2 * m + 1} ELSE 2..(3 * m + 1)
B3 == {<<4, 4, 16>>, <<8, 8, 4>>, <<4, 8, 8>>, <<8, 4, 8>>, <<4, 16, 4>>, <<16, 4, 4>>}
B2 == {<<1, 4, 16>>, <<1, 8, 8>>, <<1, 16, 4>>}
Init == b \in B3 \cup B2 /\ ns = <<>>
Next == Len(ns) < 3 /\ \E v \in Ns(b[Len(ns) + 1]) : ns' = Append(ns, v) /\ UNCHANGED b
Spec == Init /\ [][Next]_<<b, ns>>
F == File(IF b[1] = 1 THEN 2 ELSE 3, ns, b)
Layout == Len(ns) = 3 => (WellFormed(F) /\ DataIsIdealLayout(F))
Hash == Len(ns) = 3 => HashIsSource(F)
Rows == Len(ns) = 3 => EdgeRows(F)
=============================================================================
