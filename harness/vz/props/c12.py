"""C12 re-blocking to the z-slice layout changes layout only.

TLC (MC_Transform, part reblock, over SgzTransform + SgzFormat) checks at a scaled block size - every inline/crossline extent
below, at and above one and two target blocks, sample counts across several source blocks - that the re-blocker's buffer
arithmetic puts into every unit slot of the (T,T,4) file the source unit with the same coordinates, reads nothing outside the
source data section, and that the two historical partial-block counts are rejected.  Real default-layout 2-bit files (cube
extents around 64 and 128, 0..4 header arrays, regular and irregular, NumPy and SEG-Y routes) are re-blocked: the result must be
conformant (TLC, Gen_Conform), decode bitwise like the source on every real voxel through every read path, keep axes, trace
count, file headers, every trace header and the hash; unsupported inputs must be refused without output; and the real data
section must be what TLC's copy map (Gen_Transform at the real block size, target 64x64x4) assembles, zero elsewhere."""
import os

import numpy as np
import segyio

from .. import codec, env, inputs, par, session, sgzfile, tlc, writers
from . import c03

FINISH = dict(
    level='model_checking',
    rule='sources: default-layout 2-bit files, extents {2,5,61,63,64,65,68,70,127,128,129} x {..} (quick: a covering subset), sample counts '
         '{2,4,5,9,1030}, 0..4 header arrays, irregular surveys, SEG-Y thorough; unsupported: other rates / blockshapes; non-trivial = distinct source',
    assumptions=['"refused" = raises and leaves no output file'],
    trusted=['zfpy', 'numpy', 'segyio', 'TLC'])


def specs(run):
    quick = run.tier == 'quick'
    S = [('numpy', (5, 70, 9), 2), ('numpy', (63, 10, 12), 0), ('numpy', (64, 64, 8), 1), ('numpy', (65, 66, 5), 3), ('numpy', (9, 62, 7), 1),
         ('numpy', (127, 66, 5), 0), ('numpy', (2, 2, 2), 4), ('numpy', (68, 5, 1030), 1), ('segy', (6, 61, 9), 0), ('irregular', (9, 7, 12), 0),
         ('numpy', (128, 3, 5), 2), ('numpy', (61, 61, 4), 1), ('segy-dup', (6, 9, 8), 0),
         # separately stored arrays that happen to hold the same values (two given arrays equal; exhaustive detection: many all-zero arrays)
         ('numpy-equal', (7, 9, 6), 0), ('segy-exhaustive', (5, 6, 8), 0),
         ('fixture', (5, 5, 50), 0)]        # test_data/small_2bit.sgz, written by a release older than every format gate
    if not quick:
        S += [('numpy', (129, 65, 5), 1), ('numpy', (70, 129, 4), 0), ('numpy', (4, 4, 2100), 2), ('irregular', (66, 5, 9), 0), ('segy', (65, 5, 20), 0),
              ('numpy', (60, 124, 6), 1), ('numpy', (125, 59, 3), 0), ('numpy', (64, 128, 4), 1)]
    return S


def make(d, k, spec, seed):
    route, shape, extra = spec
    p = os.path.join(d, f's{k}.sgz')
    cube = inputs.cube(shape, seed + k)
    if route == 'numpy':
        th = {}
        t = np.arange(shape[0] * shape[1]).reshape(shape[0], shape[1])
        for j, f in enumerate([segyio.TraceField.CDP_X, segyio.TraceField.CDP, segyio.TraceField.ShotPoint, segyio.TraceField.offset][:extra]):
            th[f] = (t * (j + 3) - 11 * j).astype(np.int32)
        writers.numpy_to_sgz(p, cube, 2, (4, 4, -1), ilines=10 + 3 * np.arange(shape[0]), xlines=-5 + 2 * np.arange(shape[1]),
                             samples=4.0 * np.arange(shape[2]), trace_headers=th)
    elif route == 'fixture':
        import shutil
        shutil.copy(os.path.join(inputs.FIXTURES, 'small_2bit.sgz'), p)
    elif route == 'numpy-equal':
        t = np.arange(shape[0] * shape[1]).reshape(shape[0], shape[1]).astype(np.int32)
        th = {segyio.TraceField.CDP_X: 3 * t + 1, segyio.TraceField.SourceX: 3 * t + 1, segyio.TraceField.CDP: 7 - t, segyio.TraceField.GroupX: 3 * t + 1}
        writers.numpy_to_sgz(p, cube, 2, (4, 4, -1), ilines=10 + 3 * np.arange(shape[0]), xlines=-5 + 2 * np.arange(shape[1]),
                             samples=4.0 * np.arange(shape[2]), trace_headers=th)
    elif route == 'segy-exhaustive':
        sgy = p + '.sgy'
        inputs.write_segy(sgy, cube, 10 + 3 * np.arange(shape[0]), -5 + 2 * np.arange(shape[1]), 4.0 * np.arange(shape[2]))
        writers.segy_to_sgz(sgy, p, 2, None, header_detection='exhaustive')
    elif route == 'segy-dup':      # default detection with duplicated header words (several words share one stored array)
        sgy = p + '.sgy'
        t = np.arange(shape[0] * shape[1]).reshape(shape[0], shape[1])
        inputs.write_segy(sgy, cube, 10 + 3 * np.arange(shape[0]), -5 + 2 * np.arange(shape[1]), 4.0 * np.arange(shape[2]),
                          headers={segyio.TraceField.TRACE_SEQUENCE_LINE: t + 1, segyio.TraceField.CDP: 5 * t + 2, segyio.TraceField.CDP_TRACE: 5 * t + 2,
                               segyio.TraceField.SourceX: 7 * t - 3, segyio.TraceField.GroupX: 7 * t - 3, segyio.TraceField.SourceMeasurementUnit: 7 * t - 3,      # (duplicates far apart in the table)
                                   segyio.TraceField.ShotPoint: 1000 - t})
        writers.segy_to_sgz(sgy, p, 2, None, header_detection='heuristic')
    elif route == 'segy':
        sgy = p + '.sgy'
        inputs.write_segy(sgy, cube, 10 + 3 * np.arange(shape[0]), -5 + 2 * np.arange(shape[1]), 4.0 * np.arange(shape[2]))
        writers.segy_to_sgz(sgy, p, 2, None, header_detection='thorough')
    else:
        ni, nx, nz = shape
        holes = {(0, 0), (ni - 1, nx - 1), (ni // 2, nx // 2), (1, nx - 1)}
        cells = [(i, x) for i in range(ni) for x in range(nx) if (i, x) not in holes]
        traces = cube.reshape(-1, nz)[:len(cells)]
        hdrs = [{segyio.TraceField.INLINE_3D: 10 + 3 * i, segyio.TraceField.CROSSLINE_3D: 5 + 2 * x, segyio.TraceField.CDP: 7 * t + 1} for t, (i, x) in enumerate(cells)]
        sgy = p + '.sgy'
        inputs.write_segy_traces(sgy, traces, 4.0 * np.arange(nz), hdrs)
        writers.segy_to_sgz(sgy, p, 2, None, header_detection='thorough')
    return p


def snapshot(p, calls=True):
    from seismic_zfp.read import SgzReader
    keys = sgzfile.trace_keys()
    with env.quiet():
        with SgzReader(p) as r:
            n = (r.n_ilines, r.n_xlines, r.n_samples)
            out = {'vol': r.read_volume(), 'il': np.asarray(r.ilines).tolist(), 'xl': np.asarray(r.xlines).tolist(), 'z': np.asarray(r.zslices).tolist(),
                   'ntr': int(r.tracecount), 'structured': bool(r.structured), 'stored': [int(k) for k in r.stored_header_keys],
                   'text': bytes(r.file_text_header), 'bin': bytes(r.file_binary_header), 'hash': r.get_source_data_hash()}
            tc = r.tracecount
            idx = sorted(set(range(min(tc, 40))) | set(range(max(0, tc - 40), tc)) | set(range(0, tc, max(1, tc // 60))))
            out['hdr'] = {i: [int(h[segyio.TraceField(k)]) for k in keys] for i, h in ((i, r.gen_trace_header(i)) for i in idx)}
            out['tf'] = {int(k): np.asarray(r.get_tracefield_values(k)).astype(np.int64).tolist() for k in r.stored_header_keys}
            # other read paths
            out['paths'] = {
                'inline': [codec.bits(r.read_inline(i)).tobytes() for i in sorted({0, n[0] // 2, n[0] - 1})],
                'crossline': [codec.bits(r.read_crossline(x)).tobytes() for x in sorted({0, n[1] - 1})],
                'zslice': [codec.bits(r.read_zslice(z)).tobytes() for z in sorted({0, n[2] - 1})],
                'trace': [codec.bits(r.get_trace(t)).tobytes() for t in sorted({0, tc // 2, tc - 1})],
                'subvolume': [codec.bits(r.read_subvolume(0, max(1, n[0] - 1), 0, n[1], 1 if n[2] > 1 else 0, n[2])).tobytes()] +
                             # boxes that start off a 64-line boundary and cross it (the re-blocked layout has 64 x 64 blocks), each way
                             [codec.bits(r.read_subvolume(a, b, c, dd, 0, min(n[2], 5))).tobytes()
                              for a, b, c, dd in ((min(60, n[0] - 1), min(70, n[0]), 0, min(3, n[1])), (0, min(3, n[0]), min(59, n[1] - 1), min(67, n[1])),
                                                  (min(63, n[0] - 1), min(65, n[0]), min(63, n[1] - 1), min(65, n[1])))],
                'diagonal': [codec.bits(np.asarray(r.read_correlated_diagonal(0), dtype=np.float32)).tobytes()]}
    return out


def _worker(item):
    k, spec = item
    from seismic_zfp.conversion import SgzConverter
    d = env.subdir(f'c12-{os.getpid()}')
    out = {}
    src = adv = None
    try:
        src = make(d, k, spec, par.G['seed'])
        adv = os.path.join(d, f'a{k}.sgz')
        with env.quiet():
            with SgzConverter(src) as c:
                c.convert_to_adv_sgz(adv)
        # the same request on a converter that has already served header reads (out of table order) must write the same file
        adv2 = os.path.join(d, f'a{k}h.sgz')
        with env.quiet():
            with SgzConverter(src) as c:
                keys_ = list(c.stored_header_keys)
                if keys_:
                    c.get_tracefield_values(keys_[-1])
                    c.gen_trace_header(0)
                    c.get_tracefield_values(keys_[len(keys_) // 2])
                c.get_trace(0)
                c.convert_to_adv_sgz(adv2)
        with open(adv, 'rb') as f1, open(adv2, 'rb') as f2:
            out['history_independent'] = f1.read() == f2.read()
        os.remove(adv2)
        # ... on a converter opened with preload=True (the compressed volume held in memory)
        adv4 = os.path.join(d, f'a{k}p.sgz')
        try:
            with env.quiet():
                with SgzConverter(src, preload=True) as c:
                    c.convert_to_adv_sgz(adv4)
            with open(adv, 'rb') as f1, open(adv4, 'rb') as f2:
                out['history_independent'] = out['history_independent'] and f1.read() == f2.read()
        finally:
            if os.path.exists(adv4):
                os.remove(adv4)
        # ... and on a converter that has first exported the file to SEG-Y (the other thing an SgzConverter does)
        if k % 2 == 0 and spec[1][0] * spec[1][1] <= 1000:
            adv3, seg3 = os.path.join(d, f'a{k}e.sgz'), os.path.join(d, f'a{k}e.sgy')
            try:
                with env.quiet():
                    with SgzConverter(src) as c:
                        c.convert_to_segy(seg3)
                        c.convert_to_adv_sgz(adv3)
                with open(adv, 'rb') as f1, open(adv3, 'rb') as f2:
                    out['history_independent'] = out['history_independent'] and f1.read() == f2.read()
            finally:
                for q in (adv3, seg3):
                    if os.path.exists(q):
                        os.remove(q)
        A, B = snapshot(src), snapshot(adv)
        out['same'] = {key: (A[key] == B[key]) if key != 'vol' else (A['vol'].shape == B['vol'].shape and codec.same_bits(A['vol'], B['vol']))
                       for key in ('vol', 'il', 'xl', 'z', 'ntr', 'structured', 'stored', 'text', 'bin', 'hash', 'hdr', 'tf')}
        out['paths'] = {kk: A['paths'][kk] == B['paths'][kk] for kk in A['paths']}
        Fs, ms, Hs = c03.parse(src)
        Fa, ma, Ha = c03.parse(adv)
        out['Fs'], out['Ha'], out['Hs'] = Fs, Ha, Hs
        with open(src, 'rb') as f:
            raw = f.read()
        with open(adv, 'rb') as f:
            rawa = f.read()
        out['src_data'] = raw[8192:8192 + Hs['data_blocks'] * 4096]
        out['adv_data'] = rawa[8192:8192 + Ha['data_blocks'] * 4096]
    except BaseException as e:
        if isinstance(e, (KeyboardInterrupt, SystemExit, MemoryError)):
            raise
        out['error'] = f'{type(e).__name__}: {e}'
    finally:
        for p in (src, adv, (src or '') + '.sgy'):
            if p and os.path.exists(p):
                os.remove(p)
    return out


def _unsupported(item):
    k, (rate, bs) = item
    from seismic_zfp.conversion import SgzConverter
    d = env.subdir(f'c12u-{os.getpid()}')
    src, adv = os.path.join(d, f'u{k}.sgz'), os.path.join(d, f'ua{k}.sgz')
    try:
        writers.numpy_to_sgz(src, inputs.cube((5, 6, 7), k), rate, bs)
        try:
            with env.quiet():
                with SgzConverter(src) as c:
                    c.convert_to_adv_sgz(adv)
            return {'refused': False, 'left': os.path.exists(adv)}
        except BaseException as e:
            if isinstance(e, (KeyboardInterrupt, SystemExit, MemoryError)):
                raise
            return {'refused': True, 'left': os.path.exists(adv), 'exc': type(e).__name__}
    finally:
        for p in (src, adv):
            if os.path.exists(p):
                os.remove(p)


def judge(run, spec, r, ev, conf):
    case = {'route': spec[0], 'shape': list(spec[1]), 'header_arrays': spec[2]}
    run.case(case)
    if isinstance(r, par.Crash) or 'error' in r:
        run.fail('C12.reblocks', case, str(r if isinstance(r, par.Crash) else r['error']), 'a re-blocked file')
        return
    names = {'vol': 'decoded-volume', 'il': 'axes', 'xl': 'axes', 'z': 'axes', 'ntr': 'tracecount', 'structured': 'tracecount', 'stored': 'header-arrays',
             'text': 'file-headers', 'bin': 'file-headers', 'hash': 'hash', 'hdr': 'trace-headers', 'tf': 'tracefield-arrays'}
    for key, name in names.items():
        run.check(r['same'][key], f'C12.{name}', case, key, 'unchanged')
    for key, ok in r['paths'].items():
        run.check(ok, f'C12.read-path[{key}]', case, None, 'bitwise as on the source')
    run.check(r.get('history_independent', True), 'C12.history-independent', case, None, 'the file a fresh converter writes')
    if conf is not None:
        run.check(not conf, 'C12.conformant', case, conf, [])
    if ev is not None and ev['supported']:
        sd, ub = r['src_data'], r['Fs']['ub']
        want = b''.join(sd[o:o + ub] if o >= 0 else bytes(ub) for o in ev['copy'])
        if want != r['adv_data'] or not ev['ok']:
            nbad = sum(1 for j in range(0, min(len(want), len(r['adv_data'])), ub) if want[j:j + ub] != r['adv_data'][j:j + ub])
            run.drift(f'{case}: data section differs from SgzTransform!ReblockCopy in {nbad} slots ({len(want)} vs {len(r["adv_data"])} bytes)')
        else:
            run.traces_validated += 1


def run(run):
    run.mc('MC_Transform', f'MC_Transform_reblock_{run.tier}', timeout=3000)
    session.fields()
    par.G['seed'] = run.seed
    S = specs(run)
    res = par.pmap(_worker, list(enumerate(S)), chunksize=1)
    items, conf_items, where = [], [], {}
    for k, (spec, r) in enumerate(zip(S, res)):
        if isinstance(r, par.Crash) or 'error' in r:
            continue
        F = {kk: v for kk, v in r['Fs'].items() if kk in ('dim', 'n', 'b', 'ub', 'hblk', 'padfoot', 'narr', 'ntr')}
        where[k] = len(items)
        items.append({'op': 'reblock', 'F': F})
        # truth for the re-blocked header: the source's own (conformant, C03) header with the new blockshape
        Hs = r['Hs']
        T = c03.truth(3, r['Fs']['n'], [64, 64, 4], 2, r['Fs']['ntr'], (Hs['min_iline'], Hs['iline_interval']), (Hs['min_xline'], Hs['xline_interval']),
                      Hs['min_sample'], Hs['sample_interval'] * (1 if sgzfile.decode_version(Hs['version']) > sgzfile.V_0_1_6 else 1000),      # (the word is in ms in files up to 0.1.6)
                      source_format=Hs['source_format'], check_version=False)
        conf_items.append({'T': T, 'H': r['Ha']})
    out = tlc.oracle('Gen_Transform', {'items': items}, key='items', timeout=1800, per_shard=1) if items else {'items': [], '_tlc': {'generated': 0, 'wall_s': 0}}
    run.add_tlc({'distinct': 0, 'generated': out['_tlc']['generated'], 'wall_s': out['_tlc']['wall_s']}, 'Gen_Transform(reblock)')
    co = tlc.oracle('Gen_Conform', {'items': conf_items}, key='items') if conf_items else {'items': [], '_tlc': {'generated': 0, 'wall_s': 0}}
    run.add_tlc({'distinct': 0, 'generated': co['_tlc']['generated'], 'wall_s': co['_tlc']['wall_s']}, 'Gen_Conform')
    for k, (spec, r) in enumerate(zip(S, res)):
        j = where.get(k)
        judge(run, spec, r, out['items'][j] if j is not None else None, [f[0] for f in co['items'][j]['failed']] if j is not None else None)
    U = [(4, (4, 4, -1)), (2, (64, 64, 4)), (2, (8, 8, 256)), (1, (4, 4, -1)), (16, (4, 4, -1))]
    for (rate, bs), r in zip(U, par.pmap(_unsupported, list(enumerate(U)), chunksize=1)):
        case = {'unsupported': True, 'rate': rate, 'blockshape': list(bs)}
        run.case(case)
        run.check(not isinstance(r, par.Crash) and r['refused'] and not r['left'], 'C12.unsupported-refused', case, r, 'raises, no output')


def replay(run, rep):
    c = rep['case']
    session.fields()
    par.G['seed'] = run.seed
    if c.get('unsupported'):
        r = _unsupported((0, (c['rate'], tuple(c['blockshape']))))
        run.check(r['refused'] and not r['left'], rep['clause'], c, r, None)
        return
    S = specs(run)
    k = [i for i, s in enumerate(S) if s[0] == c['route'] and list(s[1]) == c['shape'] and s[2] == c['header_arrays']]
    if not k:
        S = specs(type('R', (), {'tier': 'thorough'})())
        k = [i for i, s in enumerate(S) if s[0] == c['route'] and list(s[1]) == c['shape'] and s[2] == c['header_arrays']]
    spec = S[k[0]]
    r = _worker((k[0], spec))
    conf = None
    if 'error' not in r and rep['clause'] == 'C12.conformant':
        Hs = r['Hs']
        T = c03.truth(3, r['Fs']['n'], [64, 64, 4], 2, r['Fs']['ntr'], (Hs['min_iline'], Hs['iline_interval']), (Hs['min_xline'], Hs['xline_interval']),
                      Hs['min_sample'], Hs['sample_interval'] * (1 if sgzfile.decode_version(Hs['version']) > sgzfile.V_0_1_6 else 1000),      # (the word is in ms in files up to 0.1.6)
                      source_format=Hs['source_format'], check_version=False)
        conf = [f[0] for f in tlc.oracle('Gen_Conform', {'items': [{'T': T, 'H': r['Ha']}]}, key='items')['items'][0]['failed']]
    judge(run, spec, r, None, conf)
