----------------------------- MODULE SgzExport -----------------------------
(***************************************************************************)
(* C06: SGZ back to SEG-Y (conversion.py SgzConverter.convert_to_segy /    *)
(* write_segy / regenerate_trace_header), composed with the conversion     *)
(* that made the SGZ (SgzHeaders!Run) - the round trip as one function.    *)
(* An exported file is: the geometry handed to segyio.create, the traces   *)
(* (as source ordinals - the samples are the codec's business), the trace  *)
(* headers (every word of every trace, with the delay-recording-time word  *)
(* regenerated from the first sample time) and the stored file header.     *)
(***************************************************************************)
EXTENDS SgzHeaders

CONSTANT EBug     \* "none" | design mutants: "keep_delay" (the delay word is not regenerated), "grid_order" (irregular files exported in
                  \*   grid order with holes as traces), "hdr_shift" (header i+1 written with trace i)

\* d = the word that holds the delay recording time, z0 = first sample time of the SGZ
ExportHeaders(fl, m, regular, n, nf, d, z0) ==
    [i \in 1..n |-> [f \in 1..nf |->
        IF f = d /\ EBug # "keep_delay" THEN z0
        ELSE ReadBack(fl, m, regular, f, IF EBug = "hdr_shift" /\ i < n THEN i + 1 ELSE i)]]

\* trace order: ordinal i of the SGZ (through the population mask for irregular files) is source trace i
ExportOrder(g) == IF EBug = "grid_order" THEN [p \in 1..Len(g) |-> IF g[p] THEN OrdOf(g, p) ELSE 0]
                  ELSE [i \in 1..Cardinality({p \in 1..Len(g) : g[p]}) |-> i]

\* geometry given to segyio: a cube (ilines x xlines, inline sorted) only for structured files
ExportSpec(regular3d, ni, nx, ntr) == IF regular3d THEN [kind |-> "cube", ni |-> ni, nx |-> nx] ELSE [kind |-> "traces", n |-> ntr]

(***************************************************************************)
(* Round trip over the conversion state machine of SgzHeaders              *)
(***************************************************************************)
\* shift = how far a vertical crop of the SGZ moved the first sample (0 = uncropped): the exported delay word must follow it,
\* every other word of every trace is the source's
RoundTripOK(s, g, m, d, shift) ==
    LET r == Run(s, g, m)
        n == NT(s)
        z0 == s[d][1] + shift
        E == ExportHeaders(r.file, m, Regular(g), n, NF(s), d, z0)
    IN  /\ ExportOrder(g) = [i \in 1..n |-> i]
        /\ \A i \in 1..n, f \in 1..NF(s) : E[i][f] = (IF f = d THEN s[f][i] + shift ELSE s[f][i])
=============================================================================
