----------------------------- MODULE MC_Accessors -----------------------------
(* C13 exhaustive: the whole slice grammar of the documented interface on axes of 2..MaxLen lines, ascending and descending, increments
   1, 2, 3: line slices with every combination of present / absent bounds (bounds = existing line numbers) and steps that are multiples
   of the increment in axis order; ordinal items and slices with in-range bounds, any non-zero step up to the length, negatives. *)
EXTENDS SegyioApi, TLC
CONSTANT MaxLen
VARIABLES n, inc, first, q
avars == <<n, inc, first, q>>
Init == n \in 2..MaxLen /\ inc \in {1, 2, 3, -1, -2} /\ first \in {1, 10} /\ q = <<>>
Keys == [k \in 1..n |-> (IF inc > 0 THEN first ELSE first + (n - 1) * (0 - inc)) + (k - 1) * inc]
Bounds == SetOf(Keys) \cup {NoneV}
LSteps == {NoneV} \cup {m * inc : m \in 1..3}
OBounds == {NoneV} \cup ((0 - n)..n)
OSteps == {NoneV} \cup {s \in (0 - n)..n : s # 0}
Next == /\ q = <<>>
        /\ \/ \E a \in Bounds, b \in Bounds, c \in LSteps : q' = <<"line", a, b, c>>
           \/ \E a \in OBounds, b \in OBounds, c \in OSteps : q' = <<"ord", a, b, c>>
           \/ \E i \in (0 - 2 * n - 1)..(2 * n + 1) : q' = <<"orditem", i, 0, 0>>
           \/ \E v \in (SMin(SetOf(Keys)) - 1)..(SMax(SetOf(Keys)) + 1) : q' = <<"lineitem", v, 0, 0>>
        /\ UNCHANGED <<n, inc, first>>
Spec == Init /\ [][Next]_avars
PSame == q # <<>> =>
    CASE q[1] = "line" -> EmuLineSlice(Keys, q[2], q[3], q[4]) = RefLineSlice(Keys, q[2], q[3], q[4])
      [] q[1] = "ord" -> EmuOrdSlice(n, q[2], q[3], q[4]) = RefOrdSlice(n, q[2], q[3], q[4])
      [] q[1] = "orditem" -> EmuOrdItem(n, q[2]) = RefOrdItem(n, q[2])
      [] q[1] = "lineitem" -> EmuLineItem(Keys, q[2]) = RefLineItem(Keys, q[2])
PIter == EmuLineIter(Keys) = RefLineIter(Keys)
=============================================================================
