"""Thin wrappers around the package's writers (always the real code, outputs silenced)."""
import os

import numpy as np

from . import env


def numpy_to_sgz(path, cube, rate, blockshape=(4, 4, -1), **kw):
    from seismic_zfp.conversion import NumpyConverter
    with env.quiet():
        with NumpyConverter(cube, **kw) as c:
            c.run(path, bits_per_voxel=rate, blockshape=blockshape)
    return path


def segy_to_sgz(src, path, rate=4, blockshape=None, reduce_iops=False, header_detection='heuristic', window=None):
    from seismic_zfp.conversion import SegyConverter
    kw = {}
    if window is not None:
        kw = dict(min_il=window[0], max_il=window[1], min_xl=window[2], max_xl=window[3])
    with env.quiet():
        with SegyConverter(src, **kw) as c:
            c.run(path, bits_per_voxel=rate, blockshape=blockshape, reduce_iops=reduce_iops,
                  header_detection=header_detection)
    return path


def rate_arg(r):
    """Fraction -> the form the API takes (ints, or floats below 1)"""
    from fractions import Fraction
    r = Fraction(r)
    return int(r) if r.denominator == 1 else float(r)
