----------------------------- MODULE SgzHeaderIo -----------------------------
(***************************************************************************)
(* What the header accessors of one reader READ, and what they remember    *)
(* between calls (read.py gen_trace_header, read_variant_headers,          *)
(* get_tracefield_1d / _values, get_unstructured_mask, clear_variant_      *)
(* headers).  State per reader: the set of stored-array indices cached in  *)
(* variant_headers, and whether the population mask is loaded.  A call     *)
(* yields range reads <<offset, length>> (offsets from SgzFormat) and the  *)
(* new state.  Properties: every read lies inside the footer array it is   *)
(* meant for; a structured header costs 4 bytes per stored array; an array *)
(* and the mask are fetched at most once per reader until cleared; the     *)
(* answer does not depend on the history (C07 header clause, C15, C17/C18  *)
(* header reads).                                                          *)
(***************************************************************************)
EXTENDS SgzFormat, TLC

CONSTANT IoBug   \* "none" | "reread_dups" (one 4-byte read per header WORD instead of per stored array: the code before f923535),
                 \*          "sticky" (get_tracefield_values leaves padded arrays in the cache that gen_trace_header then indexes by ordinal: before 351e3dc)

\* A file for this module: F (SgzFormat descriptor), kind in {"regular", "irregular", "2d"}, dup = number of header words that alias a stored array
Arr(F) == 1..F.narr
ArrRead(F, k) == <<ArrayOffset(F, k - 1), EntryBytes(F), "array">>
MaskRead(F, k) == <<ArrayOffset(F, k - 1), EntryBytes(F), "mask">>      \* the same bytes as array k, fetched for the population mask
ValRead(F, k, pos) == <<ArrayOffset(F, k - 1) + 4 * pos, 4, "value">>

\* st = [cached : SUBSET Arr(F), masked : BOOLEAN (cached arrays are mask-filtered), mask : BOOLEAN]
Init0 == [cached |-> {}, masked |-> FALSE, mask |-> FALSE]

\* maskarr = index of the stored array the inline word resolves to (the population mask of an irregular file)
Call(F, kind, dup, maskarr, st, op, arg) ==
    CASE op = "gen_trace_header" ->
            IF kind = "regular"
            THEN [reads |-> {ValRead(F, k, arg) : k \in Arr(F)} , n |-> F.narr + (IF IoBug = "reread_dups" THEN dup ELSE 0), st |-> st, ok |-> TRUE]
            ELSE \* whole arrays, mask-filtered for irregular files, each fetched once
                 LET need == Arr(F) \ st.cached
                     mk == kind = "irregular" /\ ~st.mask /\ need # {}
                 IN  [reads |-> {ArrRead(F, k) : k \in need} \cup (IF mk THEN {MaskRead(F, maskarr)} ELSE {}),
                      n |-> Cardinality(need) + (IF mk THEN 1 ELSE 0),
                      st |-> [cached |-> Arr(F), masked |-> kind = "irregular", mask |-> st.mask \/ mk],
                      \* the cached arrays must be indexable by ordinal: mask-filtered iff irregular
                      ok |-> (st.cached = {} \/ st.masked = (kind = "irregular"))]
      [] op = "get_tracefield_values" ->
            IF kind = "regular"
            THEN [reads |-> IF arg \in st.cached THEN {} ELSE {ArrRead(F, arg)}, n |-> IF arg \in st.cached THEN 0 ELSE 1,
                  st |-> [st EXCEPT !.cached = @ \cup {arg}], ok |-> TRUE]
            ELSE IF IoBug = "sticky"
                 THEN [reads |-> IF arg \in st.cached THEN {} ELSE {ArrRead(F, arg)}, n |-> IF arg \in st.cached THEN 0 ELSE 1,
                       st |-> [st EXCEPT !.cached = @ \cup {arg}, !.masked = FALSE], ok |-> (st.cached = {} \/ ~st.masked)]
                 ELSE [reads |-> {ArrRead(F, arg)}, n |-> 1, st |-> st, ok |-> TRUE]        \* read on its own, nothing cached
      [] op = "clear" -> [reads |-> {}, n |-> 0, st |-> [st EXCEPT !.cached = {}, !.masked = FALSE], ok |-> TRUE]

InFooter(F, r) == \E k \in Arr(F) : ArrayOffset(F, k - 1) <= r[1] /\ r[1] + r[2] <= ArrayOffset(F, k - 1) + EntryBytes(F)
=============================================================================
