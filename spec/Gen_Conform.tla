----------------------------- MODULE Gen_Conform -----------------------------
(* C03 oracle: for each written file the harness supplies T (the truth: descriptor from the SOURCE and the settings, true
   axes, the writing library's version) and H (the header fields parsed at the byte positions SgzFormat!HeaderFields
   gives, plus file length and the number of arrays the table names); every conjunct of conformance is evaluated by
   name.  The recorded version decides the conventions (footer stride, trace-count field, interval unit). *)
EXTENDS SgzFormat, SgzVersion, Json, IOUtils, TLC, Sequences

Input == JsonDeserialize(IOEnv.VZ_IN)
Items == Input.items

Clauses(it) ==
    LET T == it.T
        H == it.H
        ver == Dec(H.version)
        F == [T.F EXCEPT !.padfoot = PaddedFooter(ver), !.narr = H.n_header_arrays]
        vox == IF F.dim = 3 THEN 64 ELSE 16
    IN << <<"wellformed", WellFormed(F)>>,
          <<"n_header_blocks", H.n_header_blocks = F.hblk>>,
          <<"n_samples", H.n_samples = F.n[3]>>,
          <<"n_xlines", F.dim = 3 => H.n_xlines = F.n[2]>>,
          <<"n_ilines", F.dim = 3 => H.n_ilines = F.n[1]>>,
          <<"min_iline", F.dim = 3 => H.min_iline = T.il0>>,
          <<"min_xline", F.dim = 3 => H.min_xline = T.xl0>>,
          <<"iline_interval", F.dim = 3 => H.iline_interval = T.ilstep>>,
          <<"xline_interval", F.dim = 3 => H.xline_interval = T.xlstep>>,
          <<"min_sample", H.min_sample = T.z0>>,
          <<"sample_interval", H.sample_interval = (IF MicrosecondDt(ver) \/ F.dim = 2 THEN T.dz_us ELSE T.dz_us \div 1000)>>,
          <<"bits_per_voxel", IF H.bits_per_voxel > 0 THEN F.ub * 8 = vox * H.bits_per_voxel
                              ELSE H.bits_per_voxel < 0 /\ F.ub * 8 * (0 - H.bits_per_voxel) = vox>>,
          \* (the very first files have no blockshape fields: zeros stand for 4 x 4 x one disk block of samples)
          <<"blockshape", \/ H.blockshape_il = F.b[1] /\ H.blockshape_xl = F.b[2] /\ H.blockshape_z = F.b[3]
                          \/ /\ ver[1] = 0 /\ ver[2] = 0 /\ ver[3] = 0 /\ H.blockshape_il = 0 /\ H.blockshape_xl = 0 /\ H.blockshape_z = 0
                             /\ F.b[1] = 4 /\ F.b[2] = 4 /\ F.b[3] * F.ub = 16384>>,
          <<"data_blocks", H.data_blocks = DataBlocks(F)>>,
          <<"entry_bytes", H.entry_bytes = EntryBytes(F)>>,
          <<"tracecount", PaddedFooter(ver) => H.tracecount = T.F.ntr>>,
          <<"version_is_writer", T.check_version => ver = T.writer_version>>,
          <<"table_names_stored_arrays", H.table_stored = H.n_header_arrays>>,
          <<"file_length", H.file_len = FileLen(F)>>,
          <<"source_format", H.source_format = T.source_format>> >>

Out(it) == LET c == Clauses(it) IN [failed |-> SelectSeq(c, LAMBDA x : ~x[2]), n |-> Len(c),
                                    stride |-> FooterStride([it.T.F EXCEPT !.padfoot = PaddedFooter(Dec(it.H.version))]),
                                    version |-> Dec(it.H.version)]
ASSUME JsonSerialize(IOEnv.VZ_OUT, [items |-> [k \in 1..Len(Items) |-> Out(Items[k])]])

VARIABLE x
Init == x = 0
Next == x' = x
Spec == Init /\ [][Next]_x
=============================================================================
