CONSTANT RMajor = 4
CONSTANT RMinor = 16
CONSTANT RPatch = 16
SPECIFICATION Spec
INVARIANT Bijective
INVARIANT OrderPreserved
INVARIANT GatesConsistent
CHECK_DEADLOCK FALSE
