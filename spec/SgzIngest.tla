----------------------------- MODULE SgzIngest -----------------------------
(***************************************************************************)
(* How a SEG-Y becomes the geometry of an SGZ file (conversion.py          *)
(* detect_geometry / infer_geometry, utils.py Geometry*, conversion_utils  *)
(* make_header / io_thread_func / unstructured_io_thread_func) and how the *)
(* reader maps trace ordinals back (read.py get_unstructured_mask).        *)
(*   C08 irregular surveys, C09 2-D detection, C11 ordinal windows.        *)
(*                                                                         *)
(* A source is a sequence of traces in file order; trace t has line        *)
(* numbers src[t] = <<il, xl>>.  Everything else is provenance: a placed   *)
(* cell holds the ORDINAL of the source trace it came from, or 0 (zero     *)
(* fill).                                                                  *)
(***************************************************************************)
EXTENDS Integers, Sequences, FiniteSets

CONSTANT IBug   \* "none" | design mutants, the first four being the code before its repair:
                \*   "truthy"     window honoured only if all four bounds are truthy (a bound 0 disables it)
                \*   "src_count"  header arrays allocated with the source trace count
                \*   "src_origin" axis origins taken from the source axes
                \*   "hdr_row"    header rows captured from inline p instead of min_il + p
                \*   "swap_steps" irregular: inline step written to the crossline-interval word
                \*   "step_count" irregular: step = (max - min) div count instead of count - 1
                \*   "trust_segyio" segyio's inferred cube is not checked against the trace numbers (the code before repair 8fc901d)
                \*   "ends_only"  only the first and last trace of every inferred line are checked
                \*   "contig_hdr" the headers of one inline are read as a contiguous run of file traces whatever the source's
                \*                sorting (the code before repair 5a8a193: right only for inline-sorted sources)

SetMin(S) == CHOOSE a \in S : \A b \in S : a <= b
SetMax(S) == CHOOSE a \in S : \A b \in S : a >= b
Ils(src) == {src[t][1] : t \in 1..Len(src)}
Xls(src) == {src[t][2] : t \in 1..Len(src)}

(***************************************************************************)
(* Detection (conversion.py:138-158).  segyio itself decides "structured": *)
(* the traces fill the il x xl rectangle of the numbers present, sorted.   *)
(***************************************************************************)
FullGrid(src) == Len(src) = Cardinality(Ils(src)) * Cardinality(Xls(src))
\* segyio (strict = False) infers a cube from the number of leading traces that share the first inline number and the trace
\* count alone; seismicfile.py then checks the numbers of EVERY trace against that cube and reopens without geometry if not
LeadRun(src) == Cardinality({t \in 1..Len(src) : \A u \in 1..t : src[u][1] = src[1][1]})
SegyioInfers(src) == Len(src) % LeadRun(src) = 0 /\ ~(Ils(src) = {0} /\ Xls(src) = {0})
CubeConsistent(src) ==
    LET n1 == LeadRun(src)
        tocheck == IF IBug = "ends_only" THEN {t \in 1..Len(src) : (t - 1) % n1 \in {0, n1 - 1}} ELSE 1..Len(src)
    IN  \A t \in tocheck : src[t] = <<src[((t - 1) \div n1) * n1 + 1][1], src[((t - 1) % n1) + 1][2]>>
Structured(src) == SegyioInfers(src) /\ (IBug = "trust_segyio" \/ CubeConsistent(src))
Detect(src) ==
    IF ~Structured(src)
    THEN IF src[1] = <<0, 0>> /\ src[Len(src)] = <<0, 0>> THEN [kind |-> "2d", n |-> Len(src)]
         ELSE [kind |-> "irregular"]
    ELSE IF Len(src) \div LeadRun(src) = 1 THEN [kind |-> "2d", n |-> LeadRun(src)]
    ELSE IF LeadRun(src) = 1 THEN [kind |-> "2d", n |-> Len(src)]
    ELSE [kind |-> "regular"]

(***************************************************************************)
(* C08: inferred grid of an irregular survey (utils.py InferredGeometry3d) *)
(***************************************************************************)
RangeOf(ids) == LET lo == SetMin(ids)
                    hi == SetMax(ids)
                    k  == Cardinality(ids)
                IN  [min |-> lo, max |-> hi, step |-> (hi - lo) \div (IF IBug = "step_count" THEN k ELSE k - 1)]
AxisOf(r) == [j \in 1..((r.max - r.min) \div r.step + 1) |-> r.min + (j - 1) * r.step]
Infer(src) == [il |-> RangeOf(Ils(src)), xl |-> RangeOf(Xls(src))]

\* traces_ref: the LAST trace carrying a pair of numbers (dict semantics)
RefOf(src, il, xl) == LET S == {t \in 1..Len(src) : src[t] = <<il, xl>>} IN IF S = {} THEN 0 ELSE SetMax(S)

\* the grid as written: Placed[gi][gx] = source ordinal or 0; the header words
Placed(src) ==
    LET g == Infer(src)
        ai == AxisOf(g.il)
        ax == AxisOf(g.xl)
    IN  [gi \in 1..Len(ai) |-> [gx \in 1..Len(ax) |-> RefOf(src, ai[gi], ax[gx])]]
IrregularHeader(src) ==
    LET g == Infer(src)
    IN  [n_il |-> Len(AxisOf(g.il)), n_xl |-> Len(AxisOf(g.xl)), min_il |-> g.il.min, min_xl |-> g.xl.min,
         il_step |-> IF IBug = "swap_steps" THEN g.xl.step ELSE g.il.step,
         xl_step |-> IF IBug = "swap_steps" THEN g.il.step ELSE g.xl.step,
         tracecount |-> Len(src)]

\* reader: population mask from the stored inline-number array (0 = hole), ordinal -> grid position in raster order
MaskOfGrid(src) == LET P == Placed(src) IN [gi \in DOMAIN P |-> [gx \in DOMAIN P[gi] |-> P[gi][gx] # 0 /\ src[P[gi][gx]][1] # 0]]
RasterOrdinal(M, gi, gx) == Cardinality({<<a, b>> \in (DOMAIN M) \X (DOMAIN M[1]) : M[a][b] /\ (a < gi \/ (a = gi /\ b <= gx))})
\* the source trace a reader returns for ordinal i (0 = no such ordinal)
TraceOfOrdinal(src, i) ==
    LET M == MaskOfGrid(src)
        P == Placed(src)
        S == {<<a, b>> \in (DOMAIN M) \X (DOMAIN M[1]) : M[a][b] /\ RasterOrdinal(M, a, b) = i}
    IN  IF S = {} THEN 0 ELSE LET p == CHOOSE p \in S : TRUE IN P[p[1]][p[2]]

\* what C08 states, for a survey with true axes tr = [il, xl: sequences of numbers] whose every line carries a trace
IrregularOK(src, tr) ==
    LET H == IrregularHeader(src)
        g == Infer(src)
    IN  /\ Detect(src).kind = "irregular"           \* not mistaken for a (smaller) regular cube
        /\ AxisOf(g.il) = tr.il /\ AxisOf(g.xl) = tr.xl
        /\ H.n_il = Len(tr.il) /\ H.n_xl = Len(tr.xl) /\ H.min_il = tr.il[1] /\ H.min_xl = tr.xl[1]
        /\ H.il_step = tr.il[2] - tr.il[1] /\ H.xl_step = tr.xl[2] - tr.xl[1]
        /\ H.tracecount = Len(src) /\ H.tracecount # H.n_il * H.n_xl            \* structured = FALSE
        /\ \A t \in 1..Len(src) : TraceOfOrdinal(src, t) = t                  \* trace i of the SGZ is the i-th source trace
        /\ \A gi \in 1..H.n_il, gx \in 1..H.n_xl :                             \* every trace at its position, holes zero
              Placed(src)[gi][gx] = RefOf(src, tr.il[gi], tr.xl[gx])

(***************************************************************************)
(* C11: ordinal window on a regular NI x NX source.  The source's traces   *)
(* are in file order, which is inline-major (srt = "il": ordinal of (i, x) *)
(* = i * NX + x + 1) or crossline-major (srt = "xl": x * NI + i + 1).      *)
(* w = <<a, b, c, d>> with None = -1 for an absent bound; the whole file   *)
(* is the window <<0, NI, 0, NX>>.                                         *)
(***************************************************************************)
None == -1
WindowApplies(w) == IF IBug = "truthy" THEN \A k \in 1..4 : w[k] # None /\ w[k] # 0
                    ELSE \A k \in 1..4 : w[k] # None
Eff(NI, NX, w) == IF WindowApplies(w) THEN w ELSE <<0, NI, 0, NX>>
FileOrd(NI, NX, srt, i, x) == IF srt = "xl" THEN x * NI + i + 1 ELSE i * NX + x + 1

\* the file the converter writes for window w: extents, origin ordinals, data provenance, and for ONE stored header word the
\* cells of its footer array (provenance = source ordinal whose header value sits there, 0 = untouched zero)
WindowedS(NI, NX, w, srt) ==
    LET e == Eff(NI, NX, w)
        a == e[1]  b == e[2]  c == e[3]  d == e[4]
        ni == b - a
        nx == d - c
        len == IF IBug = "src_count" THEN NI * NX ELSE ni * nx
        \* capture: for output inline p (0-based) the code reads the headers of source row r and stores them at q + (r - a) * nx
        row(p) == IF IBug = "hdr_row" THEN p ELSE a + p
        store(p, q) == LET k == q + (row(p) - a) * nx IN IF k < 0 THEN k + len ELSE k          \* numpy negative index
        \* the q-th header of that row: a run of nx file traces from start_trace (inline-sorted), every NI-th trace (crossline-sorted)
        hdr(p, q) == IF srt = "xl" /\ IBug # "contig_hdr" THEN FileOrd(NI, NX, srt, row(p), c + q) ELSE row(p) * NX + c + q + 1
        cells == [k \in 0..(len - 1) |->
                    LET S == {<<p, q>> \in (0..(ni - 1)) \X (0..(nx - 1)) : store(p, q) = k}
                    IN  IF S = {} THEN 0
                        ELSE LET pq == CHOOSE pq \in S : \A o \in S : o[1] <= pq[1]       \* the last write wins
                             IN  hdr(pq[1], pq[2])]
    IN  [ni |-> ni, nx |-> nx,
         il_origin |-> IF IBug = "src_origin" THEN 0 ELSE a, xl_origin |-> IF IBug = "src_origin" THEN 0 ELSE c,
         tracecount |-> ni * nx,
         data |-> [p \in 0..(ni - 1) |-> [q \in 0..(nx - 1) |-> FileOrd(NI, NX, srt, a + p, c + q)]],     \* segyio's iline accessor
         arr_len |-> len, cells |-> cells]
Windowed(NI, NX, w) == WindowedS(NI, NX, w, "il")

\* footer as bytes: array k of the writer occupies cells [k * StrideW, k * StrideW + len); the reader fetches ni*nx cells from
\* k * StrideR.  Pad = cells per padding unit (128 in the code: 512 bytes)
PadTo(n, m) == ((n + m - 1) \div m) * m
ReadCell(W, pad, k, j) ==       \* value the reader sees for array k, grid cell j (0-based)
    LET sw == PadTo(W.arr_len, pad)
        sr == PadTo(W.ni * W.nx, pad)
        off == k * sr + j
        wk == off \div sw
        wj == off % sw
    IN  [arr |-> wk, cell |-> IF wj < W.arr_len THEN W.cells[wj] ELSE 0]

\* converting the windowed sub-cube alone: cell (p, q) of the result holds the samples AND the header of source position
\* (a + p, c + q), wherever that trace sits in the source file
WindowOKS(NI, NX, w, pad, narr, srt) ==
    LET W == WindowedS(NI, NX, w, srt)
        e == <<IF w[1] = None THEN 0 ELSE w[1], IF w[2] = None THEN NI ELSE w[2], IF w[3] = None THEN 0 ELSE w[3], IF w[4] = None THEN NX ELSE w[4]>>
        all == \A k \in 1..4 : w[k] # None
        a == IF all THEN e[1] ELSE 0
        b == IF all THEN e[2] ELSE NI
        c == IF all THEN e[3] ELSE 0
        d == IF all THEN e[4] ELSE NX
    IN  /\ W.ni = b - a /\ W.nx = d - c /\ W.il_origin = a /\ W.xl_origin = c /\ W.tracecount = (b - a) * (d - c)
        /\ \A p \in 0..(b - a - 1), q \in 0..(d - c - 1) :
              /\ W.data[p][q] = FileOrd(NI, NX, srt, a + p, c + q)
              /\ \A k \in 0..(narr - 1) : ReadCell(W, pad, k, p * (d - c) + q) = [arr |-> k, cell |-> FileOrd(NI, NX, srt, a + p, c + q)]
WindowOK(NI, NX, w, pad, narr) == WindowOKS(NI, NX, w, pad, narr, "il")
=============================================================================
