"""Audits of a written SGZ file against the truth (source samples, axes, headers), driven by TLC-emitted layout."""
import hashlib
import struct

import numpy as np

from . import codec, session, sgzfile


def pad_to(a, shape, mode='edge'):
    pads = [(0, s - d) for s, d in zip(shape, a.shape)]
    if mode == 'edge':
        return np.pad(a, pads, 'edge')
    return np.pad(a, pads, 'constant', constant_values=0)


def data_slots_ok(fc, src, mode='edge'):
    """every data-section slot that holds at least one real voxel is Enc of the ideal unit (bitwise).
    src: 3-D array [ni,nx,nz] (2-D files: [1,nt,nz]).  -> (ok, first bad unit or None, number of units checked)"""
    F, lay = fc.F, fc.layout
    nu = lay['nu']
    rate = fc.meta['rate']
    ub = F['ub']
    if F['dim'] == 3:
        p4 = tuple(-(-s // 4) * 4 for s in src.shape)
        ideal = pad_to(np.asarray(src, dtype=np.float32), p4, mode)
        stream = codec.compress(ideal, rate)
        u4 = tuple(s // 4 for s in p4)
    else:
        s2 = np.asarray(src, dtype=np.float32)[0]
        p4 = tuple(-(-s // 4) * 4 for s in s2.shape)
        ideal = pad_to(s2, p4, mode)
        stream = codec.compress(ideal, rate)
        u4 = (1,) + tuple(s // 4 for s in p4)
    addr = np.asarray(lay['unit_addr'], dtype=np.int64).reshape(nu)
    data = fc.ref.bytes
    n = 0
    for ui in range(u4[0]):
        for ux in range(u4[1]):
            for uz in range(u4[2]):
                k = (ui * u4[1] + ux) * u4[2] + uz
                a = int(addr[ui, ux, uz])
                n += 1
                if data[a:a + ub] != stream[k * ub:(k + 1) * ub]:
                    return False, [ui, ux, uz], n
    return True, None, n


def readback_ok(path, src, rate, mode='edge', dim=3):
    """read_volume() (3-D) / read_subplane over everything (2-D) is bitwise the ZFP image of the 4-padded source"""
    from seismic_zfp.read import SgzReader
    from . import env
    with env.quiet():
        with SgzReader(path) as r:
            if dim == 3:
                got = r.read_volume()
                exp = codec.ideal_volume(src, rate, mode)
            else:
                got = r.read_subplane(0, r.tracecount, 0, r.n_samples)
                exp = codec.ideal_volume(np.asarray(src)[0], rate, mode)
    return codec.same_bits(got, exp), got.shape


def sha1_of_traces(src):
    """C20: SHA-1 of the real float32 samples in trace order (little-endian)"""
    a = np.ascontiguousarray(np.asarray(src, dtype='<f4'))
    return hashlib.sha1(a.tobytes()).hexdigest()
