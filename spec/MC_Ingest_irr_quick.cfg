CONSTANT IBug = "none"
CONSTANT MaxI = 3
CONSTANT MaxX = 3
CONSTANT Zero = FALSE
CONSTANT ModeSet = {"irr"}
SPECIFICATION Spec
INVARIANT PIrregular
INVARIANT PWindow
INVARIANT PDetect
CHECK_DEADLOCK FALSE
