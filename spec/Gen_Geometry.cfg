CONSTANT W = 5
CONSTANT GBug = "none"
SPECIFICATION Spec
