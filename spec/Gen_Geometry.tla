----------------------------- MODULE Gen_Geometry -----------------------------
(* C05 generator / oracle at word width W (constant): every axis triple whose values fit the word ("triples"), and for a list
   of geometries G (already scaled down by the harness: value = real / 2^(32-W)) the header words the model writes and the
   geometry the model reads back, before and after a crop. *)
EXTENDS SgzGeometry, Json, IOUtils, TLC, SequencesExt
Input == JsonDeserialize(IOEnv.VZ_IN)
Items == Input.items
Triples(maxc) == SetToSeq({t \in [start : Lo..Hi, step : (Lo..Hi) \ {0}, count : 2..maxc] : AxisOK(t)})
OutItem(it) ==
    IF it.op = "triples" THEN [triples |-> Triples(it.maxcount)]
    ELSE LET H == EncGeom(it.G)
             R == DecGeom(H)
         IN  [words |-> [il_start |-> H.il.start, il_step |-> H.il.step, xl_start |-> H.xl.start, xl_step |-> H.xl.step, z0 |-> H.z0, dz |-> H.dz],
              read |-> R, preserved |-> Preserved(it.G),
              crop |-> IF "box" \in DOMAIN it THEN DecGeom(CropGeom(H, it.box)) ELSE R,
              crop_ok |-> IF "box" \in DOMAIN it THEN CropPreserves(it.G, it.box) ELSE TRUE]
ASSUME JsonSerialize(IOEnv.VZ_OUT, [items |-> [k \in 1..Len(Items) |-> OutItem(Items[k])]])
VARIABLE x
Init == x = 0
Next == x' = x
Spec == Init /\ [][Next]_x
=============================================================================
