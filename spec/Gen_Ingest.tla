----------------------------- MODULE Gen_Ingest -----------------------------
(* C08 / C11 generator and oracle.
   subsets: every proper subset of an ni x nx grid in which every inline and crossline keeps a trace (as sorted cell lists).
   irr:     SgzIngest on a real source (list of <<il, xl>> in file order): header words, placed grid, mask, ordinal map.
   win:     SgzIngest!Windowed for a real (NI, NX, window): extents, origins, data provenance, footer cells as read back. *)
EXTENDS SgzIngest, Json, IOUtils, TLC, SequencesExt
Input == JsonDeserialize(IOEnv.VZ_IN)
Items == Input.items
RECURSIVE SortCells(_)
SortCells(S) == IF S = {} THEN <<>>
                ELSE LET m == CHOOSE c \in S : \A o \in S : c[1] < o[1] \/ (c[1] = o[1] /\ c[2] <= o[2])
                     IN  <<m>> \o SortCells(S \ {m})
SrcOfCells(q) == [t \in 1..Len(q) |-> <<q[t][1] + 1, q[t][2] + 1>>]
Subsets(ni, nx) ==
    LET Cells == (0..(ni - 1)) \X (0..(nx - 1))
        Q == SetToSeq({SortCells(S) : S \in {S \in SUBSET Cells : S # Cells /\ (\A i \in 0..(ni - 1) : \E c \in S : c[1] = i)
                                                                 /\ (\A x \in 0..(nx - 1) : \E c \in S : c[2] = x)}})
    IN  \* confusable: segyio's inference accepts the trace count; ends: even the first/last trace of every inferred line agree
        [k \in 1..Len(Q) |-> [cells |-> Q[k], confusable |-> SegyioInfers(SrcOfCells(Q[k])),
                               ends |-> SegyioInfers(SrcOfCells(Q[k])) /\ \A t \in 1..Len(Q[k]) :
                                           LET n1 == LeadRun(SrcOfCells(Q[k])) s == SrcOfCells(Q[k])
                                           IN  ((t - 1) % n1 \in {0, n1 - 1}) => s[t] = <<s[((t - 1) \div n1) * n1 + 1][1], s[((t - 1) % n1) + 1][2]>>]]
OutIrr(src) ==
    LET H == IrregularHeader(src)
        P == Placed(src)
    IN  [header |-> H, placed |-> P, ordinal |-> [t \in 1..Len(src) |-> TraceOfOrdinal(src, t)],
         il |-> AxisOf(Infer(src).il), xl |-> AxisOf(Infer(src).xl), detect |-> Detect(src).kind]
OutWin(it) ==
    LET srt == IF "srt" \in DOMAIN it THEN it.srt ELSE "il"
        W == WindowedS(it.NI, it.NX, it.w, srt)
    IN  [ni |-> W.ni, nx |-> W.nx, il_origin |-> W.il_origin, xl_origin |-> W.xl_origin, tracecount |-> W.tracecount,
         data |-> W.data, cells |-> [k \in 1..it.narr |-> [j \in 1..(W.ni * W.nx) |-> ReadCell(W, 128, k - 1, j - 1)]],
         ok |-> WindowOKS(it.NI, it.NX, it.w, 128, it.narr, srt)]
Out(it) == CASE it.op = "subsets" -> [subsets |-> Subsets(it.ni, it.nx)]
             [] it.op = "irr" -> OutIrr(it.src)
             [] it.op = "win" -> OutWin(it)
             [] it.op = "detect" -> [kind |-> Detect(it.src).kind]
ASSUME JsonSerialize(IOEnv.VZ_OUT, [items |-> [k \in 1..Len(Items) |-> Out(Items[k])]])
VARIABLE x
Init == x = 0
Next == x' = x
Spec == Init /\ [][Next]_x
=============================================================================
