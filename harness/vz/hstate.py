"""Binding of spec/SgzHeaderState.tla to the code: every history TLC generates over the header / trace calls of the four reader objects
of a survey with holes (plain reader on a fault-injecting handle, emulator, its header accessor, its trace accessor) is replayed on the
real objects.  Per step: the property verdict (raise, or what a fresh reader answers; an ordinal that is no stored trace never yields an
answer) and the conformance verdict (outcome class, exception class, the grid positions the answer was taken from, number of range reads
- as the model says)."""
import json
import os
import re

import numpy as np

from . import env, par, tlc
from .backends import CountingFile

WORDS = (189, 193)          # the stored arrays of the files this pass runs on: INLINE_3D (array 1, the mask's source), CROSSLINE_3D


def alphabet(mask, na=2):
    """the same set as MC_HeaderState!Ops, as a list the generator indexes"""
    grid, ntr = len(mask), sum(1 for m in mask if m)
    hole = list(mask).index(False)      # 0-based position of the first hole = ordinal of the first trace past it
    probe = sorted({hole, ntr - 1, ntr, grid})

    def c(op, o, i=0, k=0, pad=False, j=0):
        return {'op': op, 'o': o, 'i': i, 'k': k, 'pad': pad, 'j': j}
    A = [c('gen_trace_header', o, i) for o in 'REH' for i in probe]
    A += [c('gen_trace_header', 'R', hole, j=j) for j in range(1, na + 2)]
    A += [c('read_variant_headers', o, pad=p) for o in 'RE' for p in (False, True)]
    A += [c('read_variant_headers', 'R', pad=p, j=j) for p in (False, True) for j in range(1, na + 2)]
    A += [c('get_tracefield_values', o, k=k) for o in 'RE' for k in range(1, na + 1)]
    A += [c('get_tracefield_values', 'R', k=1, j=1)]
    A += [c('get_trace', o, i) for o in 'RT' for i in (hole, ntr)]
    A += [c('get_trace', 'R', hole, j=1)]
    A += [c('clear', 'R')]
    return A


def parse_tuple(s):
    """a TLC-printed value made of <<...>>, strings and naturals -> nested lists"""
    s = s.replace('<<', '[').replace('>>', ']')
    return json.loads(s)


def generate(mask, A, D):
    d = env.subdir(f'hs-{os.getpid()}')
    fin = os.path.join(d, f'hs{D}.json')
    with open(fin, 'w') as f:
        json.dump({'mask': [bool(m) for m in mask], 'D': D, 'alphabet': A}, f)
    res = tlc.run('Gen_HeaderState', 'Gen_HeaderState', workers=1, timeout=3000, extra_env={'VZ_IN': fin}, check_ok=False, small=True)
    # TLC wraps long values over several lines: join, then cut at every << "HS", ... >> by bracket matching
    text = re.sub(r'\s+', ' ', res['output'])
    H, pos = [], 0
    while True:
        a = text.find('"HS",', pos)
        if a < 0:
            break
        a = text.rfind('<<', 0, a)
        depth, b = 0, a
        while True:
            if text.startswith('<<', b):
                depth += 1
                b += 2
            elif text.startswith('>>', b):
                depth -= 1
                b += 2
                if depth == 0:
                    break
            else:
                b += 1
        v = parse_tuple(text[a:b])
        H.append((v[1], v[2]))
        pos = b
    return res, H


_TRUTH = {}


def truth_of(path):
    """what FRESH readers answer (one per kind of question, so that the reference itself has no history)"""
    if path not in _TRUTH:
        from seismic_zfp.read import SgzReader
        with env.quiet():
            with SgzReader(path) as r:
                ntr = int(r.tracecount)
                hdr = [{int(k): int(v) for k, v in r.gen_trace_header(i).items()} for i in range(ntr)]
            with SgzReader(path) as r:
                trace = [np.array(r.get_trace(i), copy=True) for i in range(ntr)]
            tf = {}
            for w in WORDS:
                with SgzReader(path) as r:
                    tf[w] = np.array(r.get_tracefield_values(w), copy=True)
        _TRUTH[path] = {'hdr': hdr, 'trace': trace, 'tf': tf, 'ntr': ntr}
    return _TRUTH[path]


def observe(call):
    try:
        return ('value', call())
    except BaseException as e:
        if isinstance(e, (KeyboardInterrupt, SystemExit, MemoryError)):
            raise
        return ('raise', type(e).__name__, [c.__name__ for c in type(e).__mro__])


def replay(path, data, ops, model=None):
    """-> (ok, step, detail, drift) ; ops: list of alphabet records; model: the outcomes TLC printed (None when re-running a recorded case)"""
    import seismic_zfp
    from seismic_zfp.read import SgzReader
    T = truth_of(path)
    h = CountingFile(data, name=path)
    objs, drift = {}, []
    try:
        with env.quiet():
            objs['R'] = SgzReader(h)
            if any(c['o'] in 'EHT' for c in ops):
                objs['E'] = seismic_zfp.open(path)
                objs['H'], objs['T'] = objs['E'].header, objs['E'].trace
        for step, c in enumerate(ops):
            o, op, i = objs[c['o']], c['op'], c['i']
            h.faults = {h.count + c['j'] - 1: 'exc'} if (c['j'] >= 1 and c['o'] == 'R') else {}
            n0 = h.count
            with env.quiet():
                if op == 'gen_trace_header':
                    out = observe((lambda: {int(k): int(v) for k, v in dict(o[i]).items()}) if c['o'] == 'H' else
                                  (lambda: {int(k): int(v) for k, v in o.gen_trace_header(i).items()}))
                elif op == 'read_variant_headers':
                    out = observe(lambda: o.read_variant_headers(include_padding=bool(c['pad'])))
                elif op == 'get_tracefield_values':
                    out = observe(lambda: np.array(o.get_tracefield_values(WORDS[c['k'] - 1]), copy=True))
                elif op == 'get_trace':
                    out = observe((lambda: np.array(o[i], copy=True)) if c['o'] == 'T' else (lambda: np.array(o.get_trace(i), copy=True)))
                else:
                    out = observe(lambda: o.clear_variant_headers())
            nreads = h.count - n0
            h.faults = {}
            # ---- the property
            inext = i < T['ntr'] if op in ('gen_trace_header', 'get_trace') else True
            if not inext:
                if out[0] != 'raise':
                    return False, step, f'{op}({i}) on {c["o"]}: ordinal {i} is no stored trace (there are {T["ntr"]}) but an answer came back', drift
            elif out[0] == 'value':
                if op == 'gen_trace_header' and out[1] != T['hdr'][i]:
                    bad = {k: (out[1].get(k), v) for k, v in T['hdr'][i].items() if out[1].get(k) != v}
                    return False, step, f'{op}({i}) on {c["o"]}: {dict(list(bad.items())[:3])} (got, fresh reader)', drift
                if op == 'get_trace' and not np.array_equal(out[1], T['trace'][i]):
                    return False, step, f'get_trace({i}) on {c["o"]} is not the trace a fresh reader returns', drift
                if op == 'get_tracefield_values' and not (out[1].shape == T['tf'][WORDS[c['k'] - 1]].shape and np.array_equal(out[1], T['tf'][WORDS[c['k'] - 1]])):
                    return False, step, f'get_tracefield_values({WORDS[c["k"] - 1]}) on {c["o"]} differs from a fresh reader', drift
            # ---- conformance with the model's outcome
            if model is not None:
                kind, exc, pos, n = model[step]
                if kind != out[0]:
                    drift.append(f'step {step} {op} on {c["o"]}: model {kind} {exc}, code {out[0]} {out[1] if out[0] == "raise" else ""}')
                elif kind == 'raise' and not (exc in out[2] or (exc == 'IOError' and 'OSError' in out[2])):
                    drift.append(f'step {step} {op} on {c["o"]}: model raises {exc}, code {out[1]}')
                elif c['o'] == 'R' and op != 'get_trace' and n != nreads:
                    drift.append(f'step {step} {op} on R: model {n} range reads, code {nreads}')
        return True, len(ops), '', drift
    finally:
        with env.quiet():
            for k in ('R', 'E'):
                if k in objs:
                    try:
                        objs[k].close() if k == 'R' else objs[k].__exit__(None, None, None)
                    except Exception:
                        pass


def _worker(item):
    hist, outs = item
    G = par.G['hs']
    ops = [G['A'][x - 1] for x in hist]
    ok, step, detail, drift = replay(G['path'], G['data'], ops, outs)
    return ops, ok, step, detail, drift


def run_pass(run, path, mask, D, sample=None, rng=None, only=None):
    """TLC generates, the code replays; verdicts under C15.header-state (only: the objects whose calls make up the alphabet)"""
    A = [c for c in alphabet(mask) if only is None or c['o'] in only]
    res, H = generate(mask, A, D)
    run.add_tlc(res, f'Gen_HeaderState[{os.path.basename(path)}, depth {D}]')
    if not res['ok']:
        run.machinery(f"Gen_HeaderState failed: {res['violated']}\n{res['output'][-800:]}")
        return
    if len(H) != len(A) ** D:
        run.machinery(f'Gen_HeaderState printed {len(H)} histories, expected {len(A) ** D}')
        return
    if sample is not None and len(H) > sample:
        H = [H[i] for i in sorted(rng.choice(len(H), size=sample, replace=False))]
    with open(path, 'rb') as f:
        data = f.read()
    par.G['hs'] = {'A': A, 'path': path, 'data': data}
    drifts = 0
    for item, r in zip(H, par.pmap(_worker, H, chunksize=64)):
        if isinstance(r, par.Crash):
            run.machinery(f'header-state worker died: {r}')
            continue
        ops, ok, step, detail, drift = r
        case = {'file': os.path.basename(path), 'header_state': ops}
        run.case(case, nontrivial=True)
        run.check(ok, 'C15.header-state', dict(case, step=step), detail, 'raise, or what a fresh reader answers (SgzHeaderState!Right)')
        if drift:
            drifts += 1
            if drifts <= 5:
                run.drift(f'SgzHeaderState vs code on {[(c["op"], c["o"], c["i"], c["k"], c["pad"], c["j"]) for c in ops]}: {drift[:2]}')
        elif ok:
            run.traces_validated += 1
    run.extra.setdefault('header_state', []).append({'file': os.path.basename(path), 'alphabet': len(A), 'objects': only or 'REHT', 'depth': D, 'histories': len(H), 'drifting': drifts})
