---------------------------- MODULE Trace_Partial ----------------------------
(* Trace validation for C18: the sequence of writes recorded at the open() seam of a real writer (converter + writer thread, cropper,
   re-blocker), mapped to cells by the TLC-emitted layout, must be a behaviour of SgzPartial with PBug = "none" - so InRangeIsFinal
   and InterimHarmless hold at every point where the writing can stop.  Steps that move no byte (DataDone, FooterDone, Finish) are
   silent.  A writer whose trace is rejected is not thereby wrong (the reads decide that); it is reported as drift with the line. *)
EXTENDS SgzPartial, Json, IOUtils, TLC

Trace == JsonDeserialize(IOEnv.VZ_IN).trace          \* [a |-> action, len |-> file length in cells after it, cell |-> patched cell]
VARIABLE l
tvars == <<pvars, l>>
E == Trace[l]
Is(name) == l <= Len(Trace) /\ E.a = name /\ l' = l + 1

TInit == Init /\ l = 1
TNext == \/ Is("Header") /\ Header /\ Len(disk') = E.len
         \/ Is("Presize") /\ Presize
         \/ Is("Block") /\ Block /\ Len(disk') = E.len
         \/ Is("Footer") /\ Footer /\ Len(disk') = E.len
         \/ Is("Patch") /\ PatchFields /\ disk[E.cell] = "interim" /\ disk'[E.cell] = "final"
         \/ Is("Patch") /\ E.cell = 2 /\ PrePatch
         \/ (DataDone /\ UNCHANGED l)
         \/ (FooterDone /\ UNCHANGED l)
         \/ (Finish /\ UNCHANGED l)
TSpec == TInit /\ [][TNext]_tvars
End == (~ENABLED TNext) => PrintT(<<"END", l - 1, Len(Trace), pc>>)
Safe == InRangeIsFinal /\ InterimHarmless
=============================================================================
