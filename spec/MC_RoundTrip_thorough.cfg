CONSTANT IBug = "none"
CONSTANT MaxI = 6
CONSTANT MaxX = 6
SPECIFICATION Spec
INVARIANT PHeaderStays
INVARIANT PByPosition
INVARIANT POrderKept
CHECK_DEADLOCK FALSE
