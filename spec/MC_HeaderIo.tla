----------------------------- MODULE MC_HeaderIo -----------------------------
(* every history of header calls up to depth D on one reader of a regular / irregular / 2-D file with NA stored arrays *)
EXTENDS SgzHeaderIo
CONSTANTS D, NA
VARIABLES kind, st, hist, last, fetched
hvars2 == <<kind, st, hist, last, fetched>>
F == [dim |-> 3, n |-> <<5, 6, 9>>, b |-> <<4, 4, 16>>, ub |-> 16, hblk |-> 2, padfoot |-> TRUE, narr |-> NA, ntr |-> 30]
Ops == {<<"gen_trace_header", p>> : p \in {0, 7}} \cup {<<"get_tracefield_values", k>> : k \in 1..NA} \cup {<<"clear", 0>>}
Init == kind \in {"regular", "irregular", "2d"} /\ st = Init0 /\ hist = <<>> /\ last = [reads |-> {}, n |-> 0, st |-> Init0, ok |-> TRUE] /\ fetched = <<>>
Next == /\ Len(hist) < D
        /\ \E o \in Ops :
              LET c == Call(F, kind, 1, 2, st, o[1], o[2])
              IN  /\ last' = c /\ st' = c.st /\ hist' = Append(hist, o)
                  /\ fetched' = IF o[1] = "clear" THEN <<>> ELSE fetched \o <<c.reads>>
        /\ UNCHANGED kind
Spec == Init /\ [][Next]_hvars2
\* every read is inside one footer array; the call can be answered from what is cached (no AssertionError / wrong indexing)
PInFooter == \A r \in last.reads : InFooter(F, r)
PAnswerable == last.ok
\* a structured header: exactly 4 bytes per stored array
PFourBytes == (hist # <<>> /\ hist[Len(hist)][1] = "gen_trace_header" /\ kind = "regular") => (last.n = NA /\ \A r \in last.reads : r[2] = 4)
\* irregular / 2-D header generation keeps the arrays: a second header right after a first one reads nothing
PWarm == (Len(hist) >= 2 /\ kind # "regular" /\ hist[Len(hist)][1] = "gen_trace_header" /\ hist[Len(hist) - 1][1] = "gen_trace_header") => last.n = 0
=============================================================================
