"""C15 history independence: every TLC-enumerated history of reads over several readers + one emulator is replayed on
the real code; after every call the result must be what the call means (SgzApi!Ideal on the reference decode) -
i.e. what a fresh reader returns - for preload on/off and chunk-cache sizes 1, 2, default."""
import json
import os
import re
from concurrent.futures import ThreadPoolExecutor

import numpy as np

from .. import env, hstate, inputs, par, readcalls, session, tlc
from ..tlc import NONE
from . import c02

FINISH = dict(
    level='model_checking',
    rule='TLC (MC_History) enumerates every history up to depth D over an alphabet that contains, for every cached '
         'loader method, two calls differing in exactly one argument, on 2 readers + the emulator accessors, with close of a '
         'second reader; HistoryFree is checked on the model and every history is replayed on the real code; '
         'non-trivial = distinct (file, preload, K, history) of length >= 2',
    assumptions=['an exception is a result; same result = same class'],
    trusted=['zfpy', 'numpy', 'TLC'])

EMU = {3: 'iline', 4: 'xline', 5: 'depth_slice', 6: 'trace', 7: 'header', 9: 'subvolume'}


def alphabet(F, rng):
    """calls [r, op, a]: per cached method two calls differing in one argument; two plain readers; emulator accessors"""
    ni, nx, nz = F['n']
    A = []

    def add(r, op, a):
        A.append({'r': r, 'op': op, 'a': list(a)})
    if F['dim'] == 2:
        t0, t1 = 1, min(nx - 1, 1 + F['b'][1])
        add(1, 'get_trace', [t0, NONE, NONE])
        add(1, 'get_trace', [t0 + 1 if t0 + 1 < nx else 0, NONE, NONE])
        add(1, 'get_trace', [t1, NONE, NONE])
        add(2, 'get_trace', [t1, NONE, NONE])
        add(1, 'get_trace', [t0, 1, min(nz, 6)])
        if nz > F['b'][2] + 2:          # a window that starts in the second z-block, then one spanning both
            add(1, 'get_trace', [t0, F['b'][2] + 1, min(nz, F['b'][2] + 5)])
            add(1, 'get_trace', [t0, 2, min(nz, F['b'][2] + 5)])
        add(1, 'read_subplane', [0, min(nx, 3), 0, min(nz, 5)])
        add(1, 'read_subplane', [0, min(nx, 3), 1, min(nz, 5)])
        add(1, 'read_subplane', [1, min(nx, 3), 0, min(nz, 5)])
        add(2, 'read_subplane', [0, min(nx, 3), 0, min(nz, 5)])
        add(6, 'get_trace', [t0, NONE, NONE])
        add(1, 'gen_trace_header', [t0])
        add(1, 'get_tracefield_values', [0])
        add(7, 'gen_trace_header', [t1])
        add(2, 'close', [])
        return A
    z0 = min(5, nz - 1)
    add(1, 'read_inline', [0])
    add(1, 'read_inline', [min(4, ni - 1)])
    add(2, 'read_inline', [1])
    add(1, 'read_crossline', [0])
    add(1, 'read_crossline', [min(4, nx - 1)])
    add(1, 'read_zslice', [1])
    add(1, 'read_zslice', [z0])           # same block, other unit
    add(2, 'read_zslice', [z0])
    add(1, 'read_subvolume', [0, 2, 0, 2, 0, min(nz, 8)])
    add(1, 'read_subvolume', [0, 2, 0, 2, min(4, nz - 2), min(nz, 8)])   # differs in min_z only
    add(1, 'read_subvolume', [0, 2, 1, 2, 0, min(nz, 8)])
    if ni >= 12 and nx >= 12:       # a wide box and two boxes inside it at other block-aligned origins (every order of the three is replayed)
        for box in ([0, 12, 0, 12, 0, nz], [4, 8, 4, 8, 0, min(nz, 50)], [8, 12, 8, 12, 0, min(nz, 50)]):
            A.append({'r': 1, 'op': 'read_subvolume', 'a': box, 'nest': True})
    tc = readcalls.tracecount(F)
    t0, t1 = min(3, tc - 1), min(4, tc - 1)
    add(1, 'get_trace', [t0, NONE, NONE])
    add(1, 'get_trace', [t1, NONE, NONE])
    add(1, 'get_trace', [t0, 2, min(nz, 9)])
    add(1, 'get_trace', [t0, 1, min(nz, 3)])          # same column, same first z-block, ends earlier (chunk key must carry max_z)
    if F['b'][1] < nx and F['b'][1] not in (t0, t1):
        add(1, 'get_trace', [F['b'][1], NONE, NONE])   # first trace of the next crossline block: its bricks follow the previous column's on disk
    add(2, 'get_trace', [t1, NONE, NONE])
    add(1, 'read_correlated_diagonal', [0, NONE, NONE, NONE, NONE])
    add(1, 'read_anticorrelated_diagonal', [min(ni, nx) - 1, NONE, NONE, NONE, NONE])
    add(3, 'read_inline', [1])
    add(4, 'read_crossline', [1])
    add(5, 'read_zslice', [z0])
    add(6, 'get_trace', [t0, NONE, NONE])
    add(1, 'gen_trace_header', [t0])
    if tc > 1100:           # a header far away in the footer arrays, then (or before) one near their start
        add(1, 'gen_trace_header', [tc - 7])
        add(7, 'gen_trace_header', [tc - 300])
    add(1, 'get_tracefield_values', [0])
    add(7, 'gen_trace_header', [t1])
    if F['mask'] and 0 in F['mask']:
        # a survey with holes: stored trace k and cube position k part ways at the first hole, so whatever a reader remembers about
        # headers or positions (hole-filtered or padded arrays, the populated-position mask) shows in the traces PAST it
        past = min(tc - 1, list(F['mask']).index(0) + 1)
        add(1, 'get_trace', [past, NONE, NONE])
        add(1, 'gen_trace_header', [past])
        add(6, 'get_trace', [past, NONE, NONE])
        add(7, 'gen_trace_header', [past])
        add(1, 'get_tracefield_values', [1])
        add(1, 'read_variant_headers', [0])
        add(8, 'read_variant_headers', [0])     # 8 = the emulator object itself (it is a reader too; its accessors are 3..7, 9)
        add(8, 'read_variant_headers', [1])     # ... with the padded arrays: the accessors' answers must not change
        add(8, 'get_tracefield_values', [0])
    # by line number / sample time: the same NUMBER looked up on different axes of one reader
    il, xl = F['il'], F['xl']
    ilv = [il['s'] + k * il['d'] for k in range(ni)]
    xlv = [xl['s'] + k * xl['d'] for k in range(nx)]
    both = [v for v in ilv if v in xlv and ilv.index(v) != xlv.index(v)]
    v_il, v_xl = (both[0], both[0]) if both else (ilv[min(1, ni - 1)], xlv[min(2, nx - 1)])
    add(1, 'read_inline_number', [v_il])
    add(1, 'read_crossline_number', [v_xl])
    add(1, 'read_zslice_coord', [2 * min(2, nz - 1)])
    add(1, 'get_trace_by_coord', [t0, 2, 2 * min(nz, 5)])
    # the last valid argument and the first one past it (a refusal must not depend on what was read before)
    add(1, 'read_zslice', [nz - 1])
    add(1, 'read_zslice', [nz])
    add(1, 'read_inline', [ni - 1])
    add(1, 'read_inline', [ni])
    add(5, 'read_zslice', [nz])
    # a slice of lines through the emulator (judged on its first line)
    # (what a slice with negative bounds or a negative step MEANS is C13's subject; here it must only mean the same as on a fresh emulator)
    add(3, 'read_inline_number', [ilv[min(1, ni - 1)]])        # by line number through the accessor's own reader (what f.iline[n] does)
    add(4, 'read_crossline_number', [xlv[min(2, nx - 1)]])
    if ni >= 3:
        A.append({'r': 3, 'op': 'read_inline', 'a': [ni - 2], 'slice': True})
    if nx >= 3:
        A.append({'r': 4, 'op': 'read_crossline', 'a': [nx - 2], 'slice': True})
    add(2, 'close', [])
    return A


def tlc_histories(F, A, K, D, bug='none'):
    d = env.subdir(f'hist-{os.getpid()}')
    fin = os.path.join(d, f'h{abs(hash((json.dumps(F, sort_keys=True), K, D))) % 10**9}.json')
    with open(fin, 'w') as f:
        json.dump({'F': F, 'alphabet': A, 'K': K, 'D': D}, f)
    res = tlc.run('MC_History', 'MC_History', workers=1, timeout=1200 if D <= 2 else 7200, extra_env={'VZ_IN': fin}, check_ok=False, small=True)
    hist = {}
    for m in re.finditer(r'<<"H", <<([\d, ]*)>>, <<([^>]*)>>>>', res['output']):
        h = tuple(int(x) for x in m.group(1).split(',') if x.strip())
        hits = [x.strip().strip('"') for x in m.group(2).split(',') if x.strip()]
        hist[h] = hits
    return res, hist


class Objects:
    """the reader objects a history talks to"""

    def __init__(self, fc, preload, K):
        self.fc, self.preload, self.K = fc, preload, K
        self.obj = {}

    def get(self, r):
        import seismic_zfp
        from seismic_zfp.read import SgzReader
        if r in self.obj:
            return self.obj[r]
        with env.quiet():
            if r in (1, 2):
                o = SgzReader(self.fc.path, preload=self.preload, chunk_cache_size=self.K)
            else:
                emu = self.obj.get('emu')
                if emu is None:
                    emu = self.obj['emu'] = seismic_zfp.open(self.fc.path, chunk_cache_size=self.K)
                o = emu if r == 8 else getattr(emu, EMU[r])
        self.obj[r] = o
        return o

    def close(self, r):
        o = self.obj.pop(r, None)
        if o is not None:
            with env.quiet():
                o.close()

    def close_all(self):
        with env.quiet():
            for r in (1, 2):
                self.close(r)
            emu = self.obj.pop('emu', None)
            if emu is not None:
                try:
                    emu.__exit__(None, None, None)
                except Exception:
                    pass
        self.obj = {}


def tracefield_oracle(fc, field_index):
    """get_tracefield_values(k-th stored key): the stored array (grid shaped in 3-D)"""
    key = fc.stored[field_index % len(fc.stored)]
    arr = fc.ref.footer_array(fc.stored.index(key))
    if fc.F['dim'] == 3:
        arr = arr.reshape(fc.F['n'][0], fc.F['n'][1])
    return key, arr


def do_call(objs, fc, c, ans):
    """-> (ok, detail)"""
    r, op, a = c['r'], c['op'], c['a']
    if op == 'close':
        objs.close(r)
        return True, 'closed'
    o = objs.get(r)
    with env.quiet():
        if op == 'get_tracefield_values':
            if not fc.stored:
                return True, 'no stored arrays'
            key, exp = tracefield_oracle(fc, a[0])
            try:
                got = np.asarray(o.get_tracefield_values(key))
            except BaseException as e:
                return False, f'raise {type(e).__name__}'
            return bool(np.array_equal(got, exp)), f'array first={np.asarray(got).ravel()[:4].tolist()}'
        if op == 'read_variant_headers':
            # loads the header arrays (padded or not); what it returns is not judged, what the NEXT calls return is
            try:
                o.read_variant_headers(include_padding=bool(a[0]))
            except BaseException as e:
                if isinstance(e, (KeyboardInterrupt, SystemExit, MemoryError)):
                    raise
                return True, f'raise {type(e).__name__}'
            return True, 'loaded'
        if c.get('slice'):          # accessor[n : n + 2 steps : step]: the same expression on a FRESH emulator is the reference
            import seismic_zfp

            def expr(em):
                ax = np.asarray(fc_axes[0] if r == 3 else fc_axes[1])
                d = int(ax[1] - ax[0])
                acc = em.iline if r == 3 else em.xline
                try:
                    return [np.array(x, copy=True) for x in acc[int(ax[a[0]]):int(ax[a[0]]) + 2 * d:d]]
                except BaseException as e:
                    if isinstance(e, (KeyboardInterrupt, SystemExit, MemoryError)):
                        raise
                    return type(e).__name__
            with seismic_zfp.open(fc.path) as fresh:
                fc_axes = (np.array(fresh.ilines), np.array(fresh.xlines))
                want = expr(fresh)
            got = expr(objs.obj['emu'])
            same = (isinstance(got, str) and got == want) or (isinstance(got, list) and isinstance(want, list) and len(got) == len(want)
                                                                and all(np.array_equal(g, w) for g, w in zip(got, want)))
            return same, f'slice -> {got if isinstance(got, str) else len(got)} line(s), a fresh emulator gives {want if isinstance(want, str) else len(want)}'
        else:
            out = readcalls.invoke(o, op, a)
    grid = [x for x in ans['alts'] if x['kind'] == 'header']
    return readcalls.compare(out, ans['alts'], fc.ref, header_of=(lambda t: fc.header(grid[0]['grid'])) if grid else None)


def history_result(fc, A, answers, h, preload, K):
    """-> (case, ok, step, detail)"""
    objs = Objects(fc, preload, K)
    case = {'file': fc.label, 'preload': preload, 'K': K, 'history': [[A[i - 1]['r'], A[i - 1]['op'], A[i - 1]['a']] + (['slice'] if A[i - 1].get('slice') else []) for i in h]}
    sib = None
    try:
        if getattr(fc, 'sibling', None):        # a reader on ANOTHER file of the same geometry, alive at the same time, is asked the same things first
            from seismic_zfp.read import SgzReader
            with env.quiet():
                sib = SgzReader(fc.sibling, preload=preload, chunk_cache_size=K)
        for step, i in enumerate(h):
            c = A[i - 1]
            if sib is not None and c['op'] not in ('close', 'get_tracefield_values', 'read_variant_headers'):
                with env.quiet():
                    readcalls.invoke(sib, c['op'], c['a'])
            ok, detail = do_call(objs, fc, c, answers[i - 1])
            if not ok:
                return case, False, step, detail
    finally:
        objs.close_all()
        if sib is not None:
            with env.quiet():
                sib.close()
    return case, True, len(h), ''


def _worker(item):
    j, h, preload = item
    fc, A, answers, K = par.G['jobs'][j]
    return history_result(fc, A, answers, h, preload, K)


def replay_history(run, fc, A, answers, h, preload, K, clause='C15.same-result'):
    return merge(run, history_result(fc, A, answers, h, preload, K), clause)


def merge(run, res, clause='C15.same-result'):
    case, ok, step, detail = res
    run.case(case, nontrivial=len(case['history']) >= 2)
    if ok:
        run.ok(clause, step)
    else:
        run.fail(clause, dict(case, step=step), detail, 'the result of a fresh reader (SgzApi!Ideal)')
    return ok


def files_for(run):
    fx = inputs.fixture_sgz()
    keep = ('small_8bit.', 'small_hole', 'small_8bit-8x8', 'small-2d') if run.tier == 'quick' else \
        ('small_8bit.', 'small-irregular', 'small_2bit-64x64', 'small_8bit-8x8', 'small-2d', 'small_hole', 'padding_6x7', 'small_4bit')
    fx = [f for f in fx if any(k in f for k in keep)]
    # z-slice layout with small blocks (16x16x4 at 32 bit) keeps the model run short in the quick tier
    adv = [c for c in c02.written_files(run, 'quick') if 'b(16, 16, 4)' in c.label or 'b(4, 8, 32)' in c.label]      # z-slice layout; a (4,N,M) layout with several plane sets
    return session.load_files([session.FileCase(p) for p in fx] + adv + c02.written_2d(run, 'quick')[:2] + crafted(run), run)       # 2-D: trace groups of 4 (fast path) and of 16 (windowed reads), both longer than a sample block


def crafted(run):
    """(a) two line axes that share their end values but not their step; (b) more than 1024 traces (several read-ahead pages of a footer array)"""
    from .. import writers
    d = env.subdir('c15w')
    out = []

    def pair(name, label, shape, rate, bs, seed, **kw):
        """the file and a sibling: same geometry and layout, other samples (and other header values)"""
        p, q = os.path.join(d, name + '.sgz'), os.path.join(d, name + '-sibling.sgz')
        writers.numpy_to_sgz(p, inputs.cube(shape, seed), rate, bs, **kw)
        writers.numpy_to_sgz(q, inputs.cube(shape, seed + 1000, 'noise'), rate, bs, **kw)
        fc = session.FileCase(p, label=label)
        fc.sibling = q
        out.append(fc)
    pair('ends', 'numpy(5, 9, 12) il 1..9 step 2, xl 1..9', (5, 9, 12), 32, (4, 4, -1), run.seed + 71,
         ilines=1 + 2 * np.arange(5), xlines=1 + np.arange(9), samples=1.0 + np.arange(12))
    pair('many', 'numpy(40, 30, 4) 1200 traces', (40, 30, 4), 32, (4, 4, -1), run.seed + 72,
         ilines=100 + np.arange(40), xlines=7 + 3 * np.arange(30), samples=4.0 * np.arange(4))
    pair('brick', 'numpy(13, 10, 40) b(4, 8, 32) with a sibling', (13, 10, 40), 32, (4, 8, 32), run.seed + 73)
    # default layout, traces of two disk blocks (preload addresses the in-memory volume by block too)
    pt = os.path.join(d, 'tall.sgz')
    writers.numpy_to_sgz(pt, inputs.cube((5, 6, 300), run.seed + 75), 8, (4, 4, -1))
    out.append(session.FileCase(pt, label='numpy(5, 6, 300) r8 b(4, 4, 256): two sample blocks per trace'))
    # two 2-D lines of the same geometry (trace groups of 4)
    import segyio
    paths = []
    for j in (0, 1):
        sgy, q = os.path.join(d, f'line{j}.sgy'), os.path.join(d, f'line{j}.sgz')
        data = inputs.cube((11, 40), run.seed + 74 + 1000 * j, 'noise' if j else None)
        inputs.write_segy_traces(sgy, data, 4.0 * np.arange(40), [{segyio.TraceField.CDP: t + 1 + 100 * j, segyio.TraceField.CDP_X: 10 * t + j} for t in range(11)])
        writers.segy_to_sgz(sgy, q, 16, (1, 4, -1))
        paths.append(q)
    fc = session.FileCase(paths[0], label='segy2d(11, 40) b(1, 4, -1) with a sibling')
    fc.sibling = paths[1]
    out.append(fc)
    return out


def run(run):
    rng = np.random.default_rng(run.seed)
    quick = run.tier == 'quick'
    cases = files_for(run)
    D = 2           # every depth-2 history over the full alphabet (both tiers); depth 3: sandwiches + (thorough) every history over a core alphabet
    jobs = []
    for fc in cases:
        A = alphabet(fc.F, rng)
        answers = session.eval_calls([fc], [(0, c['op'] if c['op'] not in ('close', 'get_tracefield_values', 'read_variant_headers') else 'read_volume',
                                             c['a'] if c['op'] not in ('close', 'get_tracefield_values', 'read_variant_headers') else []) for c in A], run)
        for K in ((1, 2, None) if (not quick or getattr(fc, 'sibling', None) is None) else (1, None)):
            jobs.append((fc, A, answers, K))

    def one(job):
        fc, A, answers, K = job
        kk = K
        if kk is None:
            from seismic_zfp.utils import get_chunk_cache_size
            lay = fc.layout
            kk = get_chunk_cache_size(lay['nb'][0], lay['nb'][1])
        return tlc_histories(fc.F, A, kk, D)

    def core_of(A):
        """<= 16 calls: per cached method two calls differing in one argument, one header read, one emulator accessor, close"""
        keep, seen = [], {}
        for i, c in enumerate(A):
            if c.get('nest') or c.get('slice') or c['op'].endswith('_number') or c['op'].endswith('_coord'):
                continue
            key = (c['r'] if c['r'] <= 2 else 3, c['op'])
            if seen.get(key, 0) < (2 if c['r'] == 1 else 1):
                seen[key] = seen.get(key, 0) + 1
                keep.append(i)
        return keep[:16]

    def one3(job):
        fc, A, answers, K = job
        kk = K
        if kk is None:
            from seismic_zfp.utils import get_chunk_cache_size
            kk = get_chunk_cache_size(fc.layout['nb'][0], fc.layout['nb'][1])
        core = core_of(A)
        res, hist = tlc_histories(fc.F, [A[i] for i in core], kk, 3)
        return res, [tuple(core[i - 1] + 1 for i in h) for h in hist if len(h) == 3]

    with ThreadPoolExecutor(max_workers=16) as ex:
        results = list(ex.map(one, jobs))
        results3 = list(ex.map(one3, jobs)) if not quick else []
    items = []
    for j, (res3, hist3) in enumerate(results3):
        fc, A, answers, K = jobs[j]
        run.add_tlc(res3, f'MC_History[{fc.label},K={K},depth 3 on the core alphabet]')
        if not res3['ok']:
            run.machinery(f"MC_History (depth 3) failed on {fc.label} K={K}: {res3['violated']}\n{res3['output'][-800:]}")
            continue
        items += [(j, h, False) for h in hist3]
        items += [(j, hist3[i], True) for i in sorted(rng.choice(len(hist3), size=max(1, len(hist3) // 8), replace=False))] if hist3 else []
    for j, ((fc, A, answers, K), (res, hist)) in enumerate(zip(jobs, results)):
        run.add_tlc(res, f'MC_History[{fc.label},K={K}]')
        if not res['ok']:
            run.machinery(f"MC_History failed on {fc.label} K={K}: {res['violated']}\n{res['output'][-800:]}")
            continue
        full = sorted(h for h in hist if len(h) == D)
        if not full:
            run.machinery(f'no histories emitted for {fc.label}')
            continue
        # every depth-D history with preload off; a seeded quarter of them with preload on (and for K = 2 when thorough)
        for preload in (False, True):
            hs = full
            if preload or (not quick and K == 2):
                hs = [full[i] for i in sorted(rng.choice(len(full), size=max(1, len(full) // 4), replace=False))]
            items += [(j, h, preload) for h in hs]
        if True:
            # depth-3 "sandwiches" a ; m ; b (the full depth-3 set is the thorough tier): two data reads of one reader with any third call
            # in between - what m leaves behind (a moved file handle, a replaced cache entry) must not reach b
            data_ops = ('read_inline', 'read_crossline', 'read_zslice', 'read_subvolume', 'get_trace', 'read_subplane')
            idx = [i for i, c in enumerate(A) if c['op'] in data_ops and c['r'] in (1, 3, 4, 6)]
            pairs = [(a, b) for a in idx for b in idx if a != b and A[a]['r'] == A[b]['r'] and A[a]['op'] == A[b]['op']]
            pairs = [pairs[i] for i in sorted(rng.choice(len(pairs), size=min(len(pairs), 10 if quick else 60), replace=False))] if pairs else []
            mids = [m for m, c in enumerate(A) if c['op'] != 'close']
            sand = [(a + 1, m + 1, b + 1) for a, b in pairs for m in mids if m not in (a, b)]
            if len(sand) > (160 if quick else 3000):
                sand = [sand[i] for i in sorted(rng.choice(len(sand), size=160 if quick else 3000, replace=False))]
            items += [(j, h, False) for h in sand]
        nest = [i + 1 for i, c in enumerate(A) if c.get('nest')]
        if len(nest) == 3:
            import itertools
            items += [(j, h, False) for h in itertools.permutations(nest)]
    par.G['jobs'] = jobs
    for item, res in zip(items, par.pmap(_worker, items)):
        if isinstance(res, par.Crash):
            fc, A, answers, K = jobs[item[0]]
            res = ({'file': fc.label, 'preload': item[2], 'K': K, 'history': [[A[i - 1]['r'], A[i - 1]['op'], A[i - 1]['a']] + (['slice'] if A[i - 1].get('slice') else []) for i in item[1]]},
                   False, 0, f'worker process died ({res})')
        if merge(run, res):
            run.traces_validated += 1
    # the header / trace-position state of the reader objects of a survey with holes, as its own state machine (SgzHeaderState):
    # TLC checks the properties for histories of any length, generates every history up to a depth, the real objects replay them
    run.mc('MC_HeaderState', 'MC_HeaderState', workers=4)
    hole_file = [p for p in inputs.fixture_sgz() if p.endswith('/small_hole.sgz')][0]
    hfc = [c for c in cases if c.path == hole_file]
    mask = [bool(m) for m in (hfc[0].F['mask'] if hfc else session.load_files([session.FileCase(hole_file)], run)[0].F['mask'])]
    hstate.run_pass(run, hole_file, mask, 3)
    if not quick:       # depth 4 over the calls of the plain reader and the header accessor
        hstate.run_pass(run, hole_file, mask, 4, sample=250000, rng=rng, only='RH')
    run.extra['depth'] = 'every history of depth 2; sandwiches a;m;b; ' + ('' if quick else 'every history of depth 3 over a core alphabet of <= 16 calls')


def replay(run, rep):
    case = rep['case']
    if 'header_state' in case:
        path = [p for p in inputs.fixture_sgz() if p.endswith('/' + case['file'])][0]
        with open(path, 'rb') as f:
            data = f.read()
        ok, step, detail, _ = hstate.replay(path, data, case['header_state'])
        run.check(ok, rep['clause'], case, detail, None)
        return
    fc = [c for c in files_for(run) if c.label == case['file']][0]
    A = [dict({'r': e[0], 'op': e[1], 'a': e[2]}, **({'slice': True} if len(e) > 3 else {})) for e in case['history']]
    answers = session.eval_calls([fc], [(0, c['op'] if c['op'] not in ('close', 'get_tracefield_values', 'read_variant_headers') else 'read_volume',
                                         c['a'] if c['op'] not in ('close', 'get_tracefield_values', 'read_variant_headers') else []) for c in A], run)
    replay_history(run, fc, A, answers, tuple(range(1, len(A) + 1)), case['preload'], case['K'], rep['clause'])
