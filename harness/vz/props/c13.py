"""C13 segyio emulation: documented accessor expressions behave as on the SEG-Y.

TLC (MC_Accessors over SegyioApi) compares, over the whole slice grammar on small axes (ascending / descending, increments 1, 2, 3),
the emulator's resolution of line-number slices, line items, iteration and ordinal items / slices with segyio's (sanitize_slice +
Line.ranges + slice.indices); the emulator's pre-repair resolution and a no-negative-ordinal variant are rejected as mutants.
TLC (Gen_Accessors) then generates, for real cubes, every expression of the grammar with the outcome segyio's semantics give it.
Three-way binding: each expression is evaluated on segyio.open(sgy) - which must agree with the model (else machinery failure: the
model misstates the reference) - and on seismic_zfp.open(sgz): same kind and length, same shapes, same line order, header values
equal, samples bitwise the SGZ's own decode, and whatever segyio rejects is rejected."""
import os

import numpy as np
import segyio

from .. import codec, env, inputs, par, tlc, writers

FINISH = dict(
    level='model_checking',
    rule='cubes: axes ascending / descending with increments 1, 2, 3 (both axes independently), 4..6 lines; expressions: every line slice with '
         'bounds in existing numbers + None and steps in {None, 1..3 x increment}, every line item present / absent, iteration, len; ordinal '
         'items and slices on trace / header / depth_slice with in-range bounds, negative ordinals and steps; attributes slices; ilines, xlines, '
         'samples, tracecount, bin, text[0], tools.dt, tools.cube, subvolume; non-trivial = distinct (cube, expression)',
    assumptions=['a generator and a list are both "iterable of arrays"; any exception counts as rejection',
                 'segyio itself is the reference; where the model of segyio disagrees with segyio the check stops as machinery failure'],
    trusted=['segyio', 'numpy', 'zfpy', 'TLC'])

N = -999
CUBES = [((1, 1, 5), (10, 2, 4)), ((9, -2, 5), (3, 3, 4)), ((20, -1, 4), (30, -3, 4)), ((2, 3, 6), (8, -1, 5)), ((100, 2, 4), (7, 1, 6)), ((5, -3, 4), (40, -2, 5)),
         ((3, 2, 8), (40, -1, 16)),       # 128 traces: every stored header array exactly one 512-byte page
         ((-4, 2, 5), (6, -3, 4))]        # line number 0 inside both axes


def axis(a):
    return np.array([a[0] + k * a[1] for k in range(a[2])], dtype=np.intc)


def sl(a, b, c):
    f = lambda v: '' if v == N else str(v)
    return f'{f(a)}:{f(b)}' + ('' if c == N else f':{c}')


def _eval(obj, expr, extra=None):
    g = {'f': obj, 'np': np, 'segyio': segyio}
    g.update(extra or {})
    try:
        v = eval(expr, g)
        if isinstance(v, (np.ndarray, dict, bytes, bytearray, str, int, float, np.integer, np.floating)) or hasattr(v, 'keys'):
            return ('value', v)
        if hasattr(v, '__iter__'):
            return ('iter', [np.array(x, copy=True) if not hasattr(x, 'keys') else dict(x) for x in v])
        return ('value', v)
    except BaseException as e:
        if isinstance(e, (KeyboardInterrupt, SystemExit, MemoryError)):
            raise
        return ('raise', type(e).__name__)


def _worker(item):
    ci, (cube_spec, exprs) = item
    import seismic_zfp
    from seismic_zfp.read import SgzReader
    import seismic_zfp.tools
    d = env.subdir(f'c13-{os.getpid()}')
    il, xl = axis(cube_spec[0]), axis(cube_spec[1])
    nz = 300 if ci % 4 == 2 else 7         # (every fourth cube: traces of three disk blocks in the default layout)
    cube = inputs.cube((len(il), len(xl), nz), par.G['seed'] + ci)
    sgy, sgz = os.path.join(d, f'q{ci}.sgy'), os.path.join(d, f'q{ci}.sgz')
    out = []
    try:
        pipe = ci == 0 and par.G.get('pipe_case')
        text = None if pipe else (('C13 CUBE %d ' % ci) * 300)[:3200].encode('ascii')
        # where the sample interval is recorded: binary header and trace headers (usual), trace headers only (binary word 0), or the two
        # disagreeing (segyio then falls back to 4000 us) - the sample axis and tools.dt follow segyio's rule
        kcube = CUBES.index(cube_spec) if cube_spec in CUBES else 0
        binf = {1: {segyio.BinField.Interval: 0}, 3: {segyio.BinField.Interval: 3000}}.get(kcube)
        # sampling of 4, 2.5, 0.5 and 1.5 ms (the sample axis and tools.dt must agree with segyio off whole milliseconds too);
        # block layouts other than the default one (4 inlines deep but wider, square bricks): the emulator's lines come through other loaders
        dz = (4.0, 4.0, 2.5, 4.0, 0.5, 1.5)[kcube % 6] if cube_spec in CUBES else 4.0
        setting = ((16, None), (16, (4, 8, -1)), (16, None), (8, (8, 8, -1)))[ci % 4]
        inputs.write_segy(sgy, cube, il, xl, dz * np.arange(nz), text=text, bin_fields=binf)
        writers.segy_to_sgz(sgy, sgz, setting[0], setting[1], header_detection='thorough')
        with env.quiet():
            with SgzReader(sgz) as r:
                vol = r.read_volume()
        with segyio.open(sgy) as s, seismic_zfp.open(sgz) as e:
            ilk, xlk = [int(v) for v in il], [int(v) for v in xl]
            for ex in exprs:
                kind, expr, want = ex['kind'], ex['expr'], ex['want']
                a, b = _eval(s, expr), _eval(e, expr, {'tools': seismic_zfp.tools})
                res = {'expr': expr, 'problems': [], 'model': None}
                # (1) the model of segyio against segyio itself
                if want is not None:
                    if want[0] == 'raise':
                        res['model'] = a[0] == 'raise'
                    elif want[0] == 'item':
                        res['model'] = a[0] == 'value'
                    else:
                        res['model'] = a[0] == 'iter' and len(a[1]) == len(want[1])
                        if res['model'] and kind in ('iline', 'xline'):
                            for arr, n in zip(a[1], want[1]):
                                ref = np.asarray(s.iline[n] if kind == 'iline' else s.xline[n])
                                if not np.array_equal(arr, ref):
                                    res['model'] = False
                # (2) the emulator against segyio
                P = res['problems']
                if a[0] == 'raise':
                    if b[0] != 'raise':
                        P.append('segyio rejects, emulator returns')
                elif b[0] == 'raise':
                    P.append(f'emulator raises {b[1]}')
                elif a[0] != b[0]:
                    P.append(f'kind {a[0]} vs {b[0]}')
                elif a[0] == 'iter':
                    if len(a[1]) != len(b[1]):
                        P.append(f'length {len(a[1])} vs {len(b[1])}')
                    else:
                        for k, (x, y) in enumerate(zip(a[1], b[1])):
                            if isinstance(x, dict):
                                if {int(kk): int(vv) for kk, vv in x.items()} != {int(kk): int(vv) for kk, vv in y.items()}:
                                    P.append(f'header {k} differs')
                                    break
                            elif np.asarray(x).shape != np.asarray(y).shape:
                                P.append(f'shape {np.asarray(x).shape} vs {np.asarray(y).shape}')
                                break
                        # samples: the emulator's items are the SGZ's own decode of the lines / ordinals segyio's semantics name
                        if not P and want is not None and want[0] == 'items' and kind in ('iline', 'xline', 'depth_slice', 'trace'):
                            for y, n in zip(b[1], want[1]):
                                if kind == 'iline':
                                    ref = vol[ilk.index(n)]
                                elif kind == 'xline':
                                    ref = vol[:, xlk.index(n)]
                                elif kind == 'depth_slice':
                                    ref = vol[:, :, n]
                                else:
                                    ref = vol.reshape(-1, vol.shape[2])[n]
                                if not codec.same_bits(y, ref):
                                    P.append(f'samples of item {n} are not the SGZ decode')
                                    break
                else:
                    x, y = a[1], b[1]
                    if hasattr(x, 'keys') and not isinstance(x, np.ndarray):
                        if {int(kk): int(vv) for kk, vv in dict(x).items()} != {int(kk): int(vv) for kk, vv in dict(y).items()}:
                            P.append('mapping differs')
                    elif isinstance(x, np.ndarray):
                        if not isinstance(y, np.ndarray) or x.shape != y.shape:
                            P.append(f'shape {x.shape} vs {getattr(y, "shape", type(y).__name__)}')
                        elif kind in ('axis', 'attributes'):
                            if not np.array_equal(np.asarray(x, dtype=np.float64), np.asarray(y, dtype=np.float64)):
                                P.append('values differ')
                        elif want is not None and want[0] == 'item':
                            n = want[1][0]
                            ref = {'iline': lambda: vol[ilk.index(n)], 'xline': lambda: vol[:, xlk.index(n)], 'depth_slice': lambda: vol[:, :, n],
                                   'trace': lambda: vol.reshape(-1, vol.shape[2])[n]}[kind]()
                            if not codec.same_bits(y, ref):
                                P.append('samples are not the SGZ decode')
                    elif isinstance(x, (bytes, bytearray)):
                        if bytes(x) != bytes(y):
                            P.append('bytes differ')
                    elif isinstance(x, (int, float, np.integer, np.floating)):
                        if not isinstance(y, (int, float, np.integer, np.floating)) or float(x) != float(y):
                            P.append(f'{x!r} vs {y!r}')
                out.append(res)
            # emulator-only expressions: compared with the SGZ's decode
            extra = []

            def attempt(name, thunk):
                try:
                    extra.append((name, bool(thunk())))
                except BaseException as ex2:
                    if isinstance(ex2, (KeyboardInterrupt, SystemExit, MemoryError)):
                        raise
                    extra.append((name, False))
            i0, i1, x0, x1 = ilk[0], ilk[-1], xlk[0], xlk[-1]
            dil, dxl = ilk[1] - ilk[0], xlk[1] - xlk[0]
            attempt('tools.cube(sgz)', lambda: codec.same_bits(seismic_zfp.tools.cube(sgz), vol))
            attempt('tools.dt', lambda: float(seismic_zfp.tools.dt(e)) == float(segyio.tools.dt(s)))
            if dz == 4.0:
                attempt('subvolume[full]', lambda: codec.same_bits(e.subvolume[i0:i1 + dil:dil, x0:x1 + dxl:dxl, 0:4 * nz:4], vol))
                attempt('subvolume[stepped]', lambda: codec.same_bits(e.subvolume[ilk[1]:ilk[3]:2 * dil, xlk[1]:xlk[-1]:dxl, 4:20:8], vol[1:3:2, 1:len(xlk) - 1, 1:5:2]))
            else:       # the sub-volume accessor addresses samples by whole milliseconds; off them only the open sample range is meaningful
                attempt('subvolume[full]', lambda: codec.same_bits(e.subvolume[i0:i1 + dil:dil, x0:x1 + dxl:dxl, :], vol))
                attempt('subvolume[stepped]', lambda: codec.same_bits(e.subvolume[ilk[1]:ilk[3]:2 * dil, xlk[1]:xlk[-1]:dxl, :], vol[1:3:2, 1:len(xlk) - 1, :]))
            attempt('subvolume[open-ended]', lambda: codec.same_bits(e.subvolume[ilk[2]:, :xlk[2], :], vol[2:, :2, :]))

            def outside():
                try:
                    e.subvolume[ilk[0] - dil:ilk[2]:dil, x0:x1:dxl, 0:8:4]
                    return False
                except IndexError:
                    return True
            attempt('subvolume[outside] rejected', outside)
            out.append({'extra': extra})
    except BaseException as ex:
        if isinstance(ex, (KeyboardInterrupt, SystemExit, MemoryError)):
            raise
        return {'error': f'{type(ex).__name__}: {ex}'}
    finally:
        for p in (sgy, sgz):
            if os.path.exists(p):
                os.remove(p)
    return {'results': out}


def expressions(o, il, xl, ntr, nz, rng, quick):
    E = []
    for name, L, items, it in (('iline', o['il'], o['il_items'], o['il_iter']), ('xline', o['xl'], o['xl_items'], o['xl_iter'])):
        for x in L:
            E.append({'kind': name, 'expr': f'f.{name}[{sl(x["a"], x["b"], x["c"])}]', 'want': x['out']})
        for x in items:
            E.append({'kind': name, 'expr': f'f.{name}[{x["v"]}]', 'want': x['out']})
        E.append({'kind': name, 'expr': f'iter(f.{name})', 'want': it})
        E.append({'kind': 'scalar', 'expr': f'len(f.{name})', 'want': None})
    for name, L, items in (('trace', o['trace'], o['trace_items']), ('depth_slice', o['depth'], o['depth_items'])):
        for x in L:
            E.append({'kind': name, 'expr': f'f.{name}[{sl(x["a"], x["b"], x["c"])}]', 'want': x['out']})
        for x in items:
            E.append({'kind': name, 'expr': f'f.{name}[{x["i"]}]', 'want': x['out']})
        E.append({'kind': 'scalar', 'expr': f'len(f.{name})', 'want': None})
    for x in o['trace'][::3]:
        E.append({'kind': 'header', 'expr': f'f.header[{sl(x["a"], x["b"], x["c"])}]', 'want': x['out']})
        if x['c'] == N or x['c'] > 0:
            E.append({'kind': 'attributes', 'expr': f'f.attributes(189)[{sl(x["a"], x["b"], x["c"])}]', 'want': None})
    for x in o['trace_items']:
        E.append({'kind': 'header', 'expr': f'f.header[{x["i"]}]', 'want': x['out']})
    E += [{'kind': 'attributes', 'expr': 'f.attributes(193)[:]', 'want': None}, {'kind': 'attributes', 'expr': 'f.attributes(segyio.TraceField.CDP_X)[:]', 'want': None},
          {'kind': 'axis', 'expr': 'f.ilines', 'want': None}, {'kind': 'axis', 'expr': 'f.xlines', 'want': None}, {'kind': 'axis', 'expr': 'f.samples', 'want': None},
          {'kind': 'scalar', 'expr': 'f.tracecount', 'want': None}, {'kind': 'bin', 'expr': 'f.bin', 'want': None}, {'kind': 'text', 'expr': 'f.text[0]', 'want': None},
          {'kind': 'scalar', 'expr': 'len(f.header)', 'want': None}]
    return E


def run(run):
    quick = run.tier == 'quick'
    run.mc('MC_Accessors', f'MC_Accessors_{run.tier}')
    rng = np.random.default_rng(run.seed)
    cubes = CUBES if quick else CUBES + [((3, 1, 6), (50, -2, 6)), ((60, -3, 6), (1, 2, 6))]
    items = []
    for kc, (a, b) in enumerate(cubes):
        il, xl = axis(a), axis(b)
        ntr, nz = len(il) * len(xl), (300 if kc % 4 == 2 else 7)       # (as _worker: every fourth cube has traces of three disk blocks)
        items.append({'il': il.tolist(), 'xl': xl.tolist(), 'ntr': ntr, 'nz': nz,
                      'tbounds': [N, 0, 1, -1, -ntr, ntr, ntr - 1, ntr // 2, -(ntr // 2)], 'tsteps': [N, 1, 2, -1, -3, ntr],
                      'tidx': [0, 1, ntr - 1, -1, -ntr, ntr, -ntr - 1, 2 * ntr], 'zbounds': [N, 0, -1, nz, 3, -3], 'zsteps': [N, 2, -1, -2],
                      'zidx': [0, nz - 1, -1, -nz, nz, -nz - 1]})
    out = tlc.oracle('Gen_Accessors', {'items': items}, key='items', per_shard=1)
    run.add_tlc({'distinct': 0, 'generated': out['_tlc']['generated'], 'wall_s': out['_tlc']['wall_s']}, 'Gen_Accessors')
    jobs = []
    for (a, b), it, o in zip(cubes, items, out['items']):
        jobs.append(((a, b), expressions(o, it['il'], it['xl'], it['ntr'], it['nz'], rng, quick)))
    par.G['seed'] = run.seed
    res = par.pmap(_worker, list(enumerate(jobs)), chunksize=1)
    for (cube_spec, exprs), r in zip(jobs, res):
        cname = {'il': list(cube_spec[0]), 'xl': list(cube_spec[1])}
        if isinstance(r, par.Crash) or 'error' in r:
            run.machinery(f'C13 cube {cname}: {r}')
            continue
        for ex, rr in zip(exprs, r['results']):
            case = {'cube': cname, 'expr': ex['expr']}
            run.case(case)
            if rr['model'] is False:
                run.machinery(f'SegyioApi disagrees with segyio on {case}: model says {ex["want"]}')
                continue
            if rr['model']:
                run.traces_validated += 1
            run.check(not rr['problems'], f'C13.same-as-segyio[{ex["kind"]}]', case, rr['problems'], 'same kind, length, shapes, order, values')
        for name, ok in r['results'][-1]['extra']:
            case = {'cube': cname, 'expr': name}
            run.case(case)
            run.check(ok, 'C13.sgz-only[' + name.split('[')[0].split('(')[0] + ']', case, None, 'the SGZ decode / rejection')
    # known finding D35: a textual header with characters segyio's EBCDIC table and Python's cp037 map differently (segyio.create's default
    # header contains '|')
    par.G['pipe_case'] = True
    r = _worker((0, (cubes[0], [{'kind': 'text', 'expr': 'f.text[0]', 'want': None}])))
    par.G['pipe_case'] = False
    case = {'cube': {'il': list(cubes[0][0]), 'xl': list(cubes[0][1])}, 'expr': 'f.text[0]', 'text_has_non_cp037_ascii': True}
    run.case(case)
    if 'error' in r:
        run.machinery(str(r))
    else:
        run.check(not r['results'][0]['problems'], 'C13.text-non-cp037-chars', case, r['results'][0]['problems'], 'the 3200 bytes segyio gives')


def replay(run, rep):
    c = rep['case']
    cube_spec = (tuple(c['cube']['il']), tuple(c['cube']['xl']))
    il, xl = axis(cube_spec[0]), axis(cube_spec[1])
    par.G['seed'] = run.seed
    ci = [i for i, x in enumerate(CUBES + [((3, 1, 6), (50, -2, 6)), ((60, -3, 6), (1, 2, 6))]) if x == cube_spec]
    kind = rep['clause'].split('[')[-1].rstrip(']')
    if rep['clause'].startswith('C13.sgz-only'):
        r = _worker((ci[0] if ci else 0, (cube_spec, [])))
        for name, ok in r['results'][-1]['extra']:
            if name == c['expr']:
                run.check(ok, rep['clause'], c, None, None)
        return
    r = _worker((ci[0] if ci else 0, (cube_spec, [{'kind': kind, 'expr': c['expr'], 'want': None}])))
    if 'error' in r:
        run.machinery(r['error'])
        return
    run.check(not r['results'][0]['problems'], rep['clause'], c, r['results'][0]['problems'], None)
