CONSTANT DiskBlockBytes = 64
CONSTANT TBug = "none"
CONSTANT Tier = "thorough"
CONSTANT Part = "reblock"
SPECIFICATION Spec
INVARIANT PCrop
INVARIANT PRefuse
INVARIANT PReblock
CHECK_DEADLOCK FALSE
