------------------------------ MODULE MC_Version ------------------------------
(* exhaustive at reduced radices: the encoding is a bijection that preserves release order *)
EXTENDS SgzVersion, TLC
VARIABLES v, w
Init == v \in Versions /\ w = <<>>
Next == w = <<>> /\ w' \in Versions /\ UNCHANGED v
Spec == Init /\ [][Next]_<<v, w>>
Bijective == RoundTrip(v) /\ InRange(v)
OrderPreserved == w # <<>> => Monotone(v, w)
GatesConsistent == (v = <<0, 2, 1, 1>> => ~PaddedFooter(v)) /\ (v = <<0, 2, 2, 0>> => PaddedFooter(v))
                   /\ (v = <<0, 1, 6, 1>> => ~MicrosecondDt(v)) /\ (v = <<0, 1, 7, 0>> => MicrosecondDt(v))
=============================================================================
