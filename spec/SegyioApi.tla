----------------------------- MODULE SegyioApi -----------------------------
(***************************************************************************)
(* C13: the documented segyio-like accessors.  Two semantics of one        *)
(* expression language, as pure definitions over an axis (sequence of line *)
(* numbers in file order) or a length:                                     *)
(*   Ref*  what segyio does (segyio/line.py sanitize_slice + Line.ranges,  *)
(*         Python's slice.indices, Sequence indexing),                     *)
(*   Emu*  what seismic_zfp's accessors do (accessors.py).                 *)
(* An outcome is <<"raise">> or <<"items", seq of line numbers/ordinals>>  *)
(* (a single item has kind "item").  NoneV stands for an absent bound.     *)
(***************************************************************************)
EXTENDS Integers, Sequences, FiniteSets

CONSTANT ABug     \* "none" | "emu_range": the emulator before its repair (range(start, stop, step) on line numbers with defaults first key,
                  \*   last key + 1, increment); "no_neg": negative ordinals not wrapped

NoneV == -999
SetOf(q) == {q[i] : i \in 1..Len(q)}
SMin(S) == CHOOSE a \in S : \A b \in S : a <= b
SMax(S) == CHOOSE a \in S : \A b \in S : a >= b

\* Python range(start, stop, step) as a sequence (step # 0)
RangeLen(a, b, c) == IF c > 0 THEN (IF b > a THEN (b - a + c - 1) \div c ELSE 0) ELSE (IF a > b THEN (a - b - c - 1) \div (0 - c) ELSE 0)
PyRange(a, b, c) == [k \in 1..RangeLen(a, b, c) |-> a + (k - 1) * c]
Filter(q, S) == SelectSeq(q, LAMBDA v : v \in S)

\* Python slice(a, b, c).indices(n) for a sequence of length n (bounds may be NoneV, negative or beyond)
Clamp(v, lo, hi) == IF v < lo THEN lo ELSE IF v > hi THEN hi ELSE v
SliceIndices(a, b, c, n) ==
    LET step == IF c = NoneV THEN 1 ELSE c
        lo == IF step > 0 THEN 0 ELSE -1
        hi == IF step > 0 THEN n ELSE n - 1
        st == IF a = NoneV THEN (IF step > 0 THEN lo ELSE hi) ELSE Clamp(IF a < 0 THEN a + n ELSE a, lo, hi)
        sp == IF b = NoneV THEN (IF step > 0 THEN hi ELSE lo) ELSE Clamp(IF b < 0 THEN b + n ELSE b, lo, hi)
    IN  <<st, sp, step>>

(***************************************************************************)
(* Line accessors: iline[...] / xline[...] on line NUMBERS                 *)
(***************************************************************************)
RefLineItem(keys, n) == IF n \in SetOf(keys) THEN <<"item", <<n>> >> ELSE <<"raise">>
RefLineSlice(keys, a, b, c) ==       \* sanitize_slice, then range(*slice.indices(max + 1)), filtered to existing lines
    LET K == SetOf(keys)
        inc == c = NoneV \/ c > 0
        st == IF a = NoneV THEN (IF inc THEN SMin(K) ELSE SMax(K)) ELSE a
        sp == IF b = NoneV THEN (IF inc THEN SMax(K) + 1 ELSE SMin(K) - 1) ELSE b
        ix == SliceIndices(st, sp, c, SMax(K) + 1)
    IN  <<"items", Filter(PyRange(ix[1], ix[2], ix[3]), K)>>
RefLineIter(keys) == RefLineSlice(keys, NoneV, NoneV, NoneV)

EmuLineItem(keys, n) == RefLineItem(keys, n)            \* read_inline_number: IndexError for an absent number
EmuLineSlice(keys, a, b, c) ==
    IF ABug = "emu_range"
    THEN LET step == IF c = NoneV THEN keys[2] - keys[1] ELSE c
             st == IF a = NoneV THEN keys[1] ELSE a
             sp == IF b = NoneV THEN keys[Len(keys)] + 1 ELSE b
             r == PyRange(st, sp, step)
         IN  IF \E k \in 1..Len(r) : r[k] \notin SetOf(keys) THEN <<"raise">> ELSE <<"items", r>>
    ELSE RefLineSlice(keys, a, b, c)
EmuLineIter(keys) == EmuLineSlice(keys, NoneV, NoneV, NoneV)

(***************************************************************************)
(* Ordinal accessors: trace[...], header[...], depth_slice[...]            *)
(***************************************************************************)
RefOrdItem(n, i) == IF 0 - n <= i /\ i < n THEN <<"item", <<IF i < 0 THEN i + n ELSE i>> >> ELSE <<"raise">>
RefOrdSlice(n, a, b, c) == LET ix == SliceIndices(a, b, c, n) IN <<"items", PyRange(ix[1], ix[2], ix[3])>>
EmuOrdItem(n, i) == IF ABug = "no_neg" THEN (IF 0 <= i /\ i < n THEN <<"item", <<i>> >> ELSE <<"raise">>) ELSE RefOrdItem(n, i)
EmuOrdSlice(n, a, b, c) == RefOrdSlice(n, a, b, c)
=============================================================================
