----------------------------- MODULE Gen_Headers -----------------------------
(* C04 generator / oracle.
   enum: every abstract source matrix over nf fields x nt traces x vals, with the class of each field
         (z constant zero, c constant non-zero, v variant unique, d variant duplicate, h hidden = first = last but not constant)
         and whether the property's precondition for the default detection holds.
   eval: the model run on REAL inputs (89 fields x real traces, real mask): the table, the stored keys in order, the array
         count, and whether the model predicts an exact read-back - compared by the harness with the file the code wrote. *)
EXTENDS SgzHeaders, Json, IOUtils, TLC, SequencesExt

Input == JsonDeserialize(IOEnv.VZ_IN)
Items == Input.items

RECURSIVE Cols(_, _)
Cols(nt, vals) == IF nt = 0 THEN {<<>>} ELSE {Append(c, v) : c \in Cols(nt - 1, vals), v \in vals}
RECURSIVE Mats(_, _)
Mats(nf, cols) == IF nf = 0 THEN {<<>>} ELSE {Append(m, c) : m \in Mats(nf - 1, cols), c \in cols}

Class(s, f) == IF Variant(s, f) THEN (IF DupOf(s, f) = 0 THEN "v" ELSE "d")
               ELSE IF ~ConstantF(s, f) THEN "h" ELSE IF s[f][1] = 0 THEN "z" ELSE "c"
Pre(s) == /\ \A f \in Fld(s) : ConstantF(s, f) \/ Variant(s, f)
          /\ \A f, g \in Fld(s) : (f # g /\ Variant(s, f) /\ Variant(s, g)) =>
                                     ~(FirstV(s, f) = FirstV(s, g) /\ LastV(s, f) = LastV(s, g))

SeqOfSet(S) == SetToSeq(S)
SetOf(q) == {q[i] : i \in 1..Len(q)}

OutEnum(it) ==
    LET ms == SeqOfSet(Mats(it.nf, Cols(it.nt, SetOf(it.vals))))
    IN  [mats |-> [k \in 1..Len(ms) |-> [src |-> ms[k], cls |-> [f \in 1..it.nf |-> Class(ms[k], f)], pre |-> Pre(ms[k])]]]

EvalMode(it, kind) ==
    LET m == [kind |-> kind, given |-> SetOf(it.given), il |-> it.il, xl |-> it.xl]
        r == Run(it.src, it.geo, m)
        reg == Regular(it.geo)
        tp == Template(r.file.table).t
        mk == IF reg THEN <<>> ELSE MaskOf(r.file, m)
        ok(f, i) == ReadBackT(tp, mk, r.file, reg, f, i) =
                       (IF kind = "strip" \/ (kind = "numpy" /\ f \notin m.given \cup {m.il, m.xl}) THEN 0 ELSE it.src[f][i])
        bad == {f \in Fld(it.src) : \E i \in Trc(it.src) : ~ok(f, i)}
    IN  [mode |-> kind, table |-> r.file.table, narr |-> r.file.narr, keys |-> r.keys, open_ok |-> OpenOk(r.file),
         exact |-> bad = {}, bad |-> SeqOfSet(bad)]
OutEval(it) == [pre |-> Pre(it.src), modes |-> [k \in 1..Len(it.modes) |-> EvalMode(it, it.modes[k])]]

Out(it) == IF it.op = "enum" THEN OutEnum(it) ELSE OutEval(it)
ASSUME JsonSerialize(IOEnv.VZ_OUT, [items |-> [k \in 1..Len(Items) |-> Out(Items[k])]])

Init == src = 0 /\ geo = 0 /\ mode = 0 /\ pc = 0 /\ table = 0 /\ keys = 0 /\ cap = 0 /\ file = 0
Next == UNCHANGED hvars
Spec == Init /\ [][Next]_hvars
=============================================================================
