#!/venv/bin/python
"""Regenerates /verif/MANIFEST.json from the table below (single source of truth)."""
import json, os, subprocess
V = os.path.dirname(os.path.dirname(os.path.abspath(__file__)))
props = [json.loads(l) for l in open(os.path.join(V, 'properties.jsonl'))]
CHECKS = {
 'C02': dict(technique='TLC model checking of reader-vs-API semantics (SgzReader vs SgzApi) + replay of TLC-evaluated selections/addresses on the real readers',
             text='TLC exhaustively checks, for every small geometry/layout and every argument tuple on each residue class, that the reader as the code does it (SgzReader!Call, unit-granular provenance) equals the API meaning (SgzApi!Ideal) over the format (SgzFormat!UnitAtOff); the binding replays TLC-evaluated selections on every fixture and freshly written file through every public read path and compares bitwise with a volume decoded unit by unit from TLC-emitted addresses; the model-predicted outcome class is validated per call.',
             note='trusts zfpy/numpy/TLC; sample values are sampled (seeded), the data-flow is value independent; VDS/ZGY fixtures only', ref='7/C02'),
 'C07': dict(technique='TLC model checking of I/O proportionality (SgzReader!IoProportional) + trace validation of recorded range reads against the model',
             text='TLC proves on all small geometries that the modelled range reads touch exactly SgzApi!NeededBlocks, are disjoint and stay inside the data section; every real call is run on counting local/blob backends and its recorded (offset,len) trace is (a) compared with the read sequence the model predicts for the real file (code->spec validation) and (b) judged by the property-level predicates with TLC-computed needed blocks; open/preload/header costs likewise.',
             note='a block counts as touched if any byte is fetched; mask reads of irregular files are metadata', ref='7/C07'),
 'C14': dict(technique='TLC model checking of bounds safety (SgzReader!Call vs SgzApi!Ideal on out-of-range tuples) + replay on files with distinguishable padding',
             text='TLC enumerates every argument tuple with a component outside its range (just outside, far, negative, inside padding, empty, reversed) on all small geometries and checks that the modelled dispatch raises or yields only the real item Python indexing denotes; the same tuple families are replayed on real files whose padding decodes to values found nowhere in the real volume.',
             note='an empty array for an empty window and a clipped window are accepted (real samples only)', ref='7/C14'),
 'C15': dict(technique='TLC model checking of history independence over the cache state machine (MC_History) + replay of every TLC-enumerated history on real reader objects',
             text='MC_History models what the code remembers between calls (class-level maxsize-1 loader caches keyed by loader instance and arguments, per-reader containing-chunk LRU of capacity K, close clearing every cache) and checks on every history up to depth D that the buffer served still has the provenance the current call means; every enumerated history is replayed on 2 readers + the emulator accessors with preload on/off and K in {1,2,default}, each result compared bitwise with the ideal selection of the reference decode.',
             note='same result for exceptions means same class; cache hit/miss predictions are not part of the verdict', ref='7/C15'),
 'C17': dict(technique='TLC-modelled range-read sequences (validated against the measured ones) + exhaustive fault placement / completion-order replay on the real readers',
             text='For each read method TLC gives the range-read sequence the model predicts on the real file (validated against the recorded one); a fault of each kind is injected at every position (plus pairs) on local and blob backends and the up-to-20 concurrent blob reads are released in every (<=4) or seeded permutation: a delivered fault must end in an exception, otherwise the result must be bitwise the ideal one. MC_Reader proves on small geometries that every byte a result depends on lies inside one of the modelled reads.',
             note='any exception class counts as raising; calls run in forked workers, a crashed worker is a violation', ref='7/C17'),
 'C18': dict(technique='write sequences recorded at the open() seam, all prefixes/cuts and TLC-derived truncation classes replayed against every read call',
             text='The write sequence of real conversions (NumPy, SEG-Y heuristic/thorough, 2-D) is recorded through the module-level open seam and checked to reproduce the file; every prefix (at and inside each write) and every truncation class of the finished file (offsets from SgzFormat via TLC: header, each block, each footer array, +-1, interior) is opened and every read call must raise or equal the complete file answer. MC_Reader proves that a returned value only depends on bytes inside the modelled reads, so a read that stays inside the partial file is complete.',
             note='D23 (hash patched last) is a recorded known finding', ref='7/C18'),
 'C16': dict(technique='TLC model checking of the 3-thread pipeline (SgzWriter: safety, NoLateWrite, Termination under fairness) + edge-cover schedule replay on the real threads + TLC trace validation',
             text='TLC explores every interleaving of SgzWriter (producer/compressor/writer, bounded queues with Python unfinished-task semantics, in-place patches) with the constants of each real configuration and checks FileIsSequential, DataPrefix, NoLateWrite, deadlock freedom and Termination; the dumped state graph is covered edge by edge with schedules that a cooperative scheduler forces on the unmodified code (conversion_utils.Queue/Thread and open replaced from outside), each execution must return, write nothing afterwards and leave the sequential file byte for byte; every executed event trace is validated by TLC against Trace_Writer.',
             note='scheduling points = queue operations, thread start, file write, flush, return; design mutants (early task_done, swapped joins, second compressor, missing join) are each rejected by TLC', ref='7/C16'),
 'C01': dict(technique='TLC model checking of the producers\' unit order against the format (MC_WriterData) + bitwise replay on real conversions by every route',
             text='MC_WriterData proves for all small shapes x blockshape families that the items the producers emit, concatenated, put every unit at the address the format (and the reader) derives; real cubes on every residue are written by NumPy, segyio (IEEE/IBM), reduced-I/O reader, extended-header SEG-Y, CLI and the ZGY/VDS fixtures, and each data slot at a TLC-emitted address is compared bitwise with Enc of the ideal edge-extended unit, read_volume() with the whole-array ZFP image.',
             note='finite float32 inputs; for IBM sources the samples are what segyio delivers; VDS/ZGY: fixtures only', ref='7/C01'),
 'C20': dict(technique='TLC model checking of the hash input stream (MC_WriterData!HashIsSource) + replay against hashlib on real conversions',
             text='TLC proves for all small 3-D/2-D shapes and blockshapes that the sequence of planes/traces fed to the hash is exactly the real source in trace order; real conversions by every route and setting are compared with hashlib.sha1 of the source samples, every single-sample perturbation of a small cube/section must change the hash, re-blocking must carry it.',
             note='SHA-1 trusted; irregular surveys are outside the property', ref='7/C20'),
 'C03': dict(technique='TLC evaluation of format conformance (SgzFormat!Conformant conjuncts, SgzVersion gates) on every writer output and writer chain + TLC/Apalache model checking of the version encoding',
             text='Every output of every writer (NumPy, SEG-Y in 4 detection modes, 2-D, irregular, ZGY/VDS fixtures, cropper, re-blocker) and of chains up to length 3 is parsed at the byte positions the specification gives and each conformance conjunct (dimensions, axes, rate, blockshape, block count, entry bytes, stride and offsets under the RECORDED version, trace count, table vs stored arrays, file length) is decided by TLC against the truth taken from the source and settings; the file is then decoded unit by unit and array by array from TLC offsets. The version encoding is model checked exhaustively at reduced radices (TLC), proved at the real radices for all pairs (Apalache, thorough) and enumerated on the real class (boundary set quick, all 8.4 million thorough) together with the setuptools_scm string grammar.',
             note='unused header regions are not inspected; cropper/re-blocker keep the source version and are judged under its conventions', ref='7/C03'),
 'C04': dict(technique='TLC model checking of the header-word table / footer protocol (MC_Headers over SgzHeaders: writer classification, thorough re-classification and in-place patch, reader template and mask) + replay of TLC-enumerated matrices embedded in real SEG-Y files, with the model evaluated by TLC on every real 89 x n matrix',
             text='MC_Headers checks every source matrix over 3 (quick) / 4 (thorough) fields x 3 traces x a value set, every detection mode, the NumPy route with every subset of given fields, regular / 2-D and irregular one-hole grids: the file the modelled writer produces reads back exactly (thorough, exhaustive, NumPy), exactly under the property\'s precondition (heuristic), zero (strip), the table names exactly the stored arrays in the order written; four design mutants are each rejected. The TLC-enumerated matrices, stratified by field class, are embedded into real SEG-Y files (8 field embeddings, 2-/4-byte extremes, backgrounds populating all 89 words, trace counts around the 512-byte stride, regular / irregular / 2-D), converted in every mode and read back through gen_trace_header, load_all_headers, the emulator header accessor, get_tracefield_values, variant_headers, bin, text and the raw 3600 bytes, against segyio on the source. TLC also runs the model on the real matrix of each case: table, array order and count must match the written file (conformance), and its precondition verdict decides what the default detection owes.',
             note='values fit the field width; irregular sources inline sorted; model/code table mismatch is reported as model drift, not as a violation', ref='7/C04'),
 'C05': dict(technique='TLC model checking of the axis codec at word width W (MC_Geometry over SgzGeometry: signed pack, unsigned read, wide arithmetic, wrap; version gates; crop transform) + replay of every TLC-enumerated axis triple scaled to 32 bits and of the real interval range on written files',
             text='MC_Geometry checks every (start, step != 0, count) triple of a 5-/6-bit word, both version gates, whole- and fractional-millisecond intervals, regular and irregular trace counts and every aligned crop: the geometry the modelled reader reports is the source\'s (axes, sample origin and interval, trace count, structured flag), five design mutants are each rejected. Every triple TLC enumerates is mapped to 32 bits by x1 and by x2^(32-W) (the latter commutes with the wrap: the header words of the real file must equal the model\'s words times the scale), paired as inline/crossline axes, written by the NumPy and SEG-Y routes and read back through the reader and the emulator; the float rounding the integer model cannot see is enumerated for real: every sample interval 1..65535 us (all in thorough, 550 in quick) x start times at the extremes x sample counts through the NumPy, SEG-Y, 2-D and re-block routes; fixtures of every historical format version are compared with their SEG-Y sources.',
             note='sample times compared within 1e-9 relative; interval/start words differing from the model are reported as drift', ref='7/C05'),
 'C19': dict(technique='TLC model checking of the setting resolution/validation (SgzConfig!Resolve vs Valid) on the complete grid + conformance of the real function with the model + real conversions',
             text='TLC checks on the complete grid of the property (bits as number/string/negative reciprocal/non-powers of two x blockshape entries in {-1,1..8192}^3, 2-D and 3-D; 2 million states) that the resolution as the code does it accepts only valid combinations, keeps what was given, and accepts every valid combination fully given or with any one parameter free; the real define_blockshape_2d/3d are compared with the model point by point (TLC oracle) and accepted / near-miss points are converted for real on a tiny input: rejected => no output left, accepted => bitwise faithful read-back.',
             note='2-D rates below 1 cannot be faithful and need not be accepted', ref='7/C19'),
}
checks = []
for pid, c in CHECKS.items():
    checks.append({
        'property_id': pid,
        'quick_cmd': f'./check {pid} --tier quick',
        'thorough_cmd': f'./check {pid} --tier thorough',
        'evidence_file': f'/verif/evidence/{pid}.json',
        'replay_cmd_template': f'./check {pid} --replay {{path}}',
        'engine': 'tlc+replay',
        'level_claimed': {'category': 'model_checking', 'text': c['text'], 'design_ref': c['ref']},
        'level_note': c['note'],
        'technique': c['technique'],
    })
fixes = subprocess.check_output(['git', '-C', '/repo', 'log', '--format=%h %s', '45bcf96..HEAD'], text=True).strip().splitlines()
m = {
 'version': 1,
 'setup_cmd': './setup.sh',
 'hooks': {'guard': 'SEISMIC_ZFP_VERIF', 'enable': 'no in-repo hook is needed: checks observe the code from outside (file-like backends, module-level Queue/Thread/open seams); the guard name is reserved',
           'baseline_off_cmd': 'cd /repo && /venv/bin/python -m pytest -ra -q -p no:cacheprovider --timeout=900 --continue-on-collection-errors',
           'source_commits': [], 'add_only': True},
 'engines': [{'name': 'tlc+replay', 'path': '/verif/check', 'serves_properties': sorted(CHECKS),
              'kind_free_text': 'TLA+ specifications in /verif/spec checked by TLC; Python harness /verif/harness/vz replays TLC output into seismic_zfp and validates recorded traces'}],
 'checks': checks,
 'notes': 'fix: commits in /repo (unguarded repairs of genuine defects): ' + '; '.join(fixes),
 'not_applicable': [{'property_id': p['id'], 'reason': 'check not built yet in this round (work in progress, see DESIGN.md section 13)'}
                    for p in props if p['id'] not in CHECKS],
}
json.dump(m, open(os.path.join(V, 'MANIFEST.json'), 'w'), indent=1)
print('checks:', len(checks), 'not_applicable:', len(m['not_applicable']))
