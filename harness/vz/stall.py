"""Stall injection on the REAL threads of a conversion (no cooperative scheduler): one chosen point - the k-th time a given
thread passes a given queue / file operation - is held for a while, everything else runs free.  Used by C16 as the
protocol-independent fallback: whatever the threads do between the points, a correct pipeline returns the sequential file."""
import builtins
import contextlib
import queue
import threading
import time


def role():
    n = threading.current_thread().name
    for r in ('compressor', 'writer'):
        if r in n:
            return r
    return 'main'


class Ctl:
    def __init__(self, out_path, target=None, delay=0.25):
        self.out_path, self.target, self.delay = out_path, target, delay
        self.count = {}
        self.keys = []
        self.lock = threading.Lock()
        self.returned = False
        self.late = 0
        self.errors = []

    def pt(self, kind):
        with self.lock:
            k = (role(), kind)
            i = self.count.get(k, 0)
            self.count[k] = i + 1
            key = [k[0], k[1], i]
            self.keys.append(key)
        if self.target is not None and key == list(self.target):
            time.sleep(self.delay)


def make_queue(ctl):
    class StallQueue(queue.Queue):
        def get(self, *a, **k):
            item = super().get(*a, **k)
            ctl.pt('after-get')
            return item

        def put(self, *a, **k):
            ctl.pt('before-put')
            super().put(*a, **k)
            ctl.pt('after-put')

        def task_done(self):
            ctl.pt('before-task_done')
            super().task_done()
            ctl.pt('after-task_done')

        def join(self):
            super().join()
            ctl.pt('after-join')
    return StallQueue


class StallFile:
    def __init__(self, ctl, f):
        self.ctl, self.f = ctl, f
        self.name = f.name

    def write(self, data):
        self.ctl.pt('before-write')
        if self.ctl.returned:
            self.ctl.late += 1
        try:
            return self.f.write(data)
        except ValueError as e:          # write to a closed file: the caller went on without this block
            self.ctl.late += 1
            self.ctl.errors.append(str(e))
            raise

    def __getattr__(self, n):
        return getattr(self.f, n)

    def __enter__(self):
        return self

    def __exit__(self, *exc):
        self.f.close()


@contextlib.contextmanager
def installed(ctl):
    import seismic_zfp.conversion as cv
    import seismic_zfp.conversion_utils as cu

    def mk_open(path, mode='r', *a, **kw):
        f = builtins.open(path, mode, *a, **kw)
        if path == ctl.out_path and ('w' in mode or '+' in mode):
            return StallFile(ctl, f)
        return f
    saved = [(cu, 'Queue', cu.__dict__.get('Queue')), (cv, 'open', cv.__dict__.get('open')), (cu, 'open', cu.__dict__.get('open'))]
    cu.Queue = make_queue(ctl)
    cv.open = mk_open
    cu.open = mk_open
    try:
        yield
    finally:
        for m, n, old in saved:
            if old is None:
                delattr(m, n)
            else:
                setattr(m, n, old)


def execute(thunk, out_path, target=None, delay=0.25, settle=0.4):
    """-> dict(keys, data, late, error)"""
    ctl = Ctl(out_path, target, delay)
    err = None
    with installed(ctl):
        try:
            thunk()
        except BaseException as e:
            if isinstance(e, (KeyboardInterrupt, SystemExit, MemoryError)):
                raise
            err = f'{type(e).__name__}: {e}'
        ctl.returned = True
        with builtins.open(out_path, 'rb') as f:
            at_return = f.read()
        time.sleep(settle if target is not None else 0.05)
    with builtins.open(out_path, 'rb') as f:
        later = f.read()
    return {'keys': ctl.keys, 'data': at_return, 'changed_after_return': later != at_return, 'late': ctl.late, 'error': err, 'thread_errors': ctl.errors[:2]}
