----------------------------- MODULE SgzHeaderState -----------------------------
(***************************************************************************)
(* What the reader objects of ONE irregular survey (a grid with holes)     *)
(* remember about its header arrays and trace positions, call by call, and *)
(* what each call therefore answers (read.py read_variant_headers,         *)
(* gen_trace_header, get_tracefield_1d, get_unstructured_mask, get_trace,  *)
(* clear_variant_headers; accessors.py HeaderAccessor / TraceAccessor,     *)
(* which are reader objects of their own).                                 *)
(*                                                                         *)
(* A stored array can be held in two forms: "padded" (one value per grid   *)
(* position, zero at the holes) or "filtered" (one value per stored trace).*)
(* An ordinal i means stored trace i: position Pop[i] of the grid.  Indexed*)
(* by i, a filtered array answers for position Pop[i] (right), a padded    *)
(* array for position i (wrong from the first hole on, and it has an entry *)
(* for ordinals that are not traces at all).  The state per object is the  *)
(* form of each held array, the padding mode the object has committed to   *)
(* (read.py include_padding), and whether the population mask is loaded.   *)
(* A call makes range reads (mask, arrays, in the code's order); the j-th  *)
(* of them may fail (C17 / C18): the call raises and keeps what it had     *)
(* loaded before.                                                          *)
(*                                                                         *)
(* Properties: a call either raises or answers for the true positions, on  *)
(* every object, after every history, faults included (C15, C17, C14: an   *)
(* ordinal that is not a stored trace never yields a header or a trace).   *)
(* Deliberate deviation kept from the code: once an object has loaded      *)
(* arrays in one mode, asking in the other mode raises AssertionError for  *)
(* every index (pinned by the library's own test).                         *)
(***************************************************************************)
EXTENDS Naturals, Sequences, FiniteSets, TLC

CONSTANTS Mask,     \* <<TRUE, TRUE, FALSE, ...>> over grid positions 0..Grid-1 (1-based here): TRUE = a trace is stored there
          NA,       \* stored header arrays 1..NA
          HsBug     \* "none" | "shared" (emulator and its header accessor share the held arrays, not the mode: seed C15l)
                    \*        | "late_flag" (mode committed after the loads, so a failed load leaves arrays and no mode: seed C17l)
                    \*        | "pad_memo" (get_tracefield_1d keeps the padded array where gen_trace_header looks: seeds C14m, C08l; the code before 351e3dc)
                    \*        | "mask_sentinel" (trace positions built only if the mask is not loaded yet: seed C15m)

Objs == {"R", "E", "H", "T"}        \* a plain reader, the emulator, its header accessor, its trace accessor
Grid == Len(Mask)
Pop == SelectSeq([p \in 1..Grid |-> p], LAMBDA p : Mask[p])      \* Pop[i+1] = grid position (1-based) of stored trace i
Ntr == Len(Pop)
Form == {"none", "filtered", "padded"}
Mode(pad) == IF pad THEN "padded" ELSE "filtered"
Store(o) == IF HsBug = "shared" /\ o = "H" THEN "E" ELSE o      \* whose dictionary of arrays object o uses

VARIABLES arr,      \* [Objs -> [1..NA -> Form]]
          flag,     \* [Objs -> {"unset", "filtered", "padded"}]
          mask,     \* [Objs -> BOOLEAN]
          tpos,     \* [Objs -> {"unset", "identity", "table"}]   (only the mask_sentinel mutant ever leaves "unset"/"table")
          hot,      \* [Objs -> SUBSET Nat]: ordinals whose samples the object still holds decompressed (its chunk cache): served without a read
          out       \* the outcome of the last call
hsvars == <<arr, flag, mask, tpos, hot, out>>

Raise(e, n) == [kind |-> "raise", exc |-> e, pos |-> <<>>, n |-> n]
Value(ps, n) == [kind |-> "value", exc |-> "", pos |-> ps, n |-> n]      \* ps: the grid positions the answer is taken from
Nothing == [kind |-> "none", exc |-> "", pos |-> <<>>, n |-> 0]

\* ---- read_variant_headers(include_padding = pad): loads every array not held yet, in order; j = 0: no fault, j >= 1: the j-th range read fails
RECURSIVE LoadFrom(_, _, _, _, _, _)
LoadFrom(a, m, k, pad, j, n) ==
    IF k > NA THEN [a |-> a, m |-> m, raised |-> FALSE, n |-> n]
    ELSE IF a[k] # "none" THEN LoadFrom(a, m, k + 1, pad, j, n)
    ELSE IF ~pad /\ ~m
         THEN \* the population mask first (get_unstructured_mask), then the array
              IF j = 1 THEN [a |-> a, m |-> m, raised |-> TRUE, n |-> n + 1]
              ELSE IF j = 2 THEN [a |-> a, m |-> TRUE, raised |-> TRUE, n |-> n + 2]
              ELSE LoadFrom([a EXCEPT ![k] = "filtered"], TRUE, k + 1, pad, IF j = 0 THEN 0 ELSE j - 2, n + 2)
         ELSE IF j = 1 THEN [a |-> a, m |-> m, raised |-> TRUE, n |-> n + 1]
              ELSE LoadFrom([a EXCEPT ![k] = Mode(pad)], m, k + 1, pad, IF j = 0 THEN 0 ELSE j - 1, n + 1)

\* -> [raise : "" | exception, arr, flag, mask, n] for object o
Load(o, pad, j) ==
    LET s == Store(o)
        early == HsBug # "late_flag"
        f1 == IF flag[o] = "unset" /\ early THEN Mode(pad) ELSE flag[o]
        clash == f1 # "unset" /\ f1 # Mode(pad)
        r == LoadFrom(arr[s], mask[o], 1, pad, j, 0)
    IN  IF clash THEN [exc |-> "AssertionError", a |-> arr[s], f |-> f1, m |-> mask[o], n |-> 0]
        ELSE [exc |-> IF r.raised THEN "IOError" ELSE "", a |-> r.a, m |-> r.m, n |-> r.n,
              f |-> IF early THEN f1 ELSE IF r.raised THEN flag[o] ELSE Mode(pad)]

Commit(o, l) == /\ arr' = [arr EXCEPT ![Store(o)] = l.a]
                /\ flag' = [flag EXCEPT ![o] = l.f]
                /\ mask' = [mask EXCEPT ![o] = l.m]

\* ---- the calls
LoadCall(o, pad, j) ==
    LET l == Load(o, pad, j)
    IN  /\ Commit(o, l) /\ UNCHANGED <<tpos, hot>>
        /\ out' = IF l.exc # "" THEN Raise(l.exc, l.n) ELSE Value(<<>>, l.n)

\* gen_trace_header(i), i an ordinal 0..: the range check against the GRID, the filtered load, then one entry per array
GenHeader(o, i, j) ==
    IF i >= Grid
    THEN /\ UNCHANGED <<arr, flag, mask, tpos, hot>> /\ out' = Raise("IndexError", 0)
    ELSE LET l == Load(o, FALSE, j)
             short == \E k \in 1..NA : l.a[k] = "filtered"           \* a filtered array has Ntr entries
         IN  /\ Commit(o, l) /\ UNCHANGED <<tpos, hot>>
             /\ out' = IF l.exc # "" THEN Raise(l.exc, l.n)
                       ELSE IF i >= Ntr /\ short THEN Raise("IndexError", l.n)
                       ELSE Value([k \in 1..NA |-> IF l.a[k] = "filtered" THEN Pop[i + 1] ELSE i + 1], l.n)

\* get_tracefield_values(word of array k): the padded array, read on its own - nothing kept
TraceField(o, k, j) ==
    IF HsBug # "pad_memo"
    THEN /\ UNCHANGED <<arr, flag, mask, tpos, hot>>
         /\ out' = IF j = 1 THEN Raise("IOError", 1) ELSE Value(<<"padded">>, 1)
    ELSE LET s == Store(o)
             held == arr[s][k] # "none"
         IN  /\ UNCHANGED <<flag, mask, tpos, hot>>
             /\ arr' = IF held \/ j = 1 THEN arr ELSE [arr EXCEPT ![s][k] = "padded"]
             /\ out' = IF ~held /\ j = 1 THEN Raise("IOError", 1)
                       ELSE IF held /\ arr[s][k] = "filtered" THEN Raise("ValueError", 0)      \* Ntr values do not reshape to the grid
                       ELSE Value(<<"padded">>, IF held THEN 0 ELSE 1)

\* get_trace(i) on a survey with holes: the mask first (even for an ordinal that turns out to be no trace: the range check IS the
\* indexing of the populated positions), then position Pop[i]; samples still held from an earlier call are served without a read
GetTrace(o, i, j) ==
    LET need == ~mask[o]
        t1 == IF HsBug = "mask_sentinel" /\ tpos[o] = "unset" THEN (IF mask[o] THEN "identity" ELSE "table") ELSE tpos[o]
    IN  IF need /\ j = 1
        THEN /\ UNCHANGED <<arr, flag, mask, tpos, hot>> /\ out' = Raise("IOError", 1)
        ELSE IF i >= Ntr
        THEN /\ UNCHANGED <<arr, flag, tpos, hot>> /\ mask' = [mask EXCEPT ![o] = TRUE]
             /\ out' = Raise("IndexError", IF need THEN 1 ELSE 0)
        ELSE IF i \in hot[o]
        THEN /\ UNCHANGED <<arr, flag, mask, tpos, hot>>
             /\ out' = Value(<<IF tpos[o] = "identity" THEN i + 1 ELSE Pop[i + 1]>>, 0)
        ELSE IF (~need /\ j = 1) \/ (need /\ j = 2)        \* the first read of samples fails
        THEN /\ UNCHANGED <<arr, flag, tpos, hot>> /\ mask' = [mask EXCEPT ![o] = TRUE]
             /\ out' = Raise("IOError", IF need THEN 2 ELSE 1)
        ELSE /\ UNCHANGED <<arr, flag>>
             /\ mask' = [mask EXCEPT ![o] = TRUE]
             /\ tpos' = [tpos EXCEPT ![o] = t1]
             /\ hot' = [hot EXCEPT ![o] = @ \cup {i}]
             /\ out' = Value(<<IF t1 = "identity" THEN i + 1 ELSE Pop[i + 1]>>, IF need THEN 1 ELSE 0)

Clear(o) == /\ arr' = [arr EXCEPT ![Store(o)] = [k \in 1..NA |-> "none"]]
            /\ flag' = [flag EXCEPT ![o] = "unset"]
            /\ UNCHANGED <<mask, tpos, hot>> /\ out' = Value(<<>>, 0)

HsInit == /\ arr = [o \in Objs |-> [k \in 1..NA |-> "none"]]
          /\ flag = [o \in Objs |-> "unset"]
          /\ mask = [o \in Objs |-> FALSE]
          /\ tpos = [o \in Objs |-> "unset"]
          /\ hot = [o \in Objs |-> {}]
          /\ out = Nothing

\* ---- what a call is allowed to answer
\* op = [op, o, i, k, pad, j]
Truth(c) == CASE c.op = "gen_trace_header" -> [k \in 1..NA |-> Pop[c.i + 1]]
              [] c.op = "get_tracefield_values" -> <<"padded">>
              [] c.op = "get_trace" -> <<Pop[c.i + 1]>>
              [] OTHER -> <<>>
InExtent(c) == CASE c.op \in {"gen_trace_header", "get_trace"} -> c.i < Ntr
                 [] OTHER -> TRUE
\* raise, or the true answer; an ordinal that is no stored trace never yields an answer
Right(c, o_) == IF ~InExtent(c) THEN o_.kind = "raise" ELSE (o_.kind = "value" => o_.pos = Truth(c))
=============================================================================
