"""C10 cropping an SGZ file yields exactly the requested block-aligned sub-cube.

TLC (MC_Transform, part crop, over SgzTransform + SgzFormat) checks for every small source extent x layout family x index box
(aligned or not, clipped, None, empty, inverted, outside) that the cropper's block arithmetic copies, into every unit slot of the
result, the source unit with the coordinates the result's header gives that slot, reads nothing outside the source data section,
and refuses exactly the requests the property names.  Real files of several layouts / rates / header-array counts are cropped by
index and by coordinate; the result is judged against the SOURCE (decoded volume restricted to the aligned box, axes, trace
count, every trace header, every tracefield array, conformance by TLC), refusals must raise IndexError and leave no output, and
the data section of the real result must be exactly what TLC's copy map (Gen_Transform at the real block size) assembles."""
import os

import numpy as np
import segyio

from .. import codec, env, inputs, par, session, sgzfile, tlc, writers
from . import c03

FINISH = dict(
    level='model_checking',
    rule='sources: NumPy route in layouts (4,4,-1), (8,8,16), (4,8,32), (16,16,4), (64,64,4) at several rates with 0..3 extra header arrays, '
         'SEG-Y thorough; boxes: per axis None / aligned / unaligned / clipped end, by index and by coordinate, plus every refusal class '
         '(all None, empty, inverted, negative, beyond the axis); non-trivial = distinct (source, box, addressing)',
    assumptions=['an irregular source stays irregular: trace count = traces present in the box, structured iff the box has no hole'],
    trusted=['zfpy', 'numpy', 'segyio', 'TLC'])

SOURCES = [((12, 13, 150), 16, (4, 4, -1), 2), ((17, 18, 40), 32, (8, 8, 16), 1), ((9, 20, 70), 32, (4, 8, 32), 3), ((33, 18, 9), 32, (16, 16, 4), 0),
           ((70, 66, 9), 2, (64, 64, 4), 1), ((8, 9, 150), 16, (4, 4, -1), 1, 1.001), ((17, 18, 40), 32, (16, 16, 4), 1, 0.125), ((8, 16, 300), 8, (4, 4, -1), 2), ((5, 6, 2100), 1, (4, 4, -1), 1)]
# a source whose three axes have the value 0 strictly inside, on a block boundary (coordinate boxes then start or stop at 0)
ZERO_SOURCE = ((12, 9, 40), 32, (4, 4, -1), 2, 4.0, 'zero')
# descending line axes (and negative crossline numbers)
DESC_SOURCE = ((10, 13, 40), 32, (8, 8, 16), 1, 4.0, 'desc')
# six-digit line numbers (coordinate boxes resolved with a relative tolerance would land on a neighbouring line)
BIG_SOURCE = ((16, 9, 40), 32, (4, 4, -1), 1, 4.0, 'big')
# less than one bit per voxel (lengths in the header are whole disk blocks computed from a fractional rate), with stored header arrays
SUB_SOURCE = ((9, 10, 30), 0.5, (4, 4, -1), 2)
SUB_SOURCE_B = ((70, 9, 6), 0.25, (256, 128, 4), 1)
# sources whose recorded version sits right after a format gate (0.2.1: trace-count field and padded footer; 0.1.6: interval unit): written now,
# re-stamped (the conventions of every release after the gate are today's)
STAMP_SOURCES = [((9, 13, 30), 16, (4, 4, -1), 2, 4.0, 'stamp:0.2.2'), ((9, 13, 30), 16, (4, 4, -1), 3, 4.0, 'stamp:0.2.2.dev'), ((6, 7, 30), 16, (4, 4, -1), 2, 4.0, 'stamp:1.0.0')]


def make_dup_source(d, k, seed):
    """SEG-Y converted with the default detection, several header words duplicating one another (they share one stored array)"""
    shape = (9, 10, 70)
    cube = inputs.cube(shape, seed + k)
    t = np.arange(shape[0] * shape[1]).reshape(shape[0], shape[1])
    sgy = os.path.join(d, f'dup{k}.sgy')
    inputs.write_segy(sgy, cube, 100 + 2 * np.arange(shape[0]), -7 + 3 * np.arange(shape[1]), 8.0 + 4.0 * np.arange(shape[2]),
                      headers={segyio.TraceField.TRACE_SEQUENCE_LINE: t + 1, segyio.TraceField.CDP: 5 * t + 2, segyio.TraceField.CDP_TRACE: 5 * t + 2,
                               segyio.TraceField.SourceX: 7 * t - 3, segyio.TraceField.GroupX: 7 * t - 3, segyio.TraceField.SourceMeasurementUnit: 7 * t - 3,      # (duplicates far apart in the table)
                               segyio.TraceField.ShotPoint: 1000 - t})
    p = os.path.join(d, f'dup{k}.sgz')
    writers.segy_to_sgz(sgy, p, 32, (4, 4, -1), header_detection='heuristic')
    return p


def make_irregular_source(d, k, seed):
    ni, nx, nz = 9, 10, 70
    holes = {(0, 0), (8, 9), (4, 4), (4, 5), (1, 9), (7, 0), (3, 2)}
    cells = [(i, x) for i in range(ni) for x in range(nx) if (i, x) not in holes]
    traces = inputs.cube((len(cells), nz), seed + k)
    hdrs = [{segyio.TraceField.INLINE_3D: 100 + 2 * i, segyio.TraceField.CROSSLINE_3D: -7 + 3 * x, segyio.TraceField.CDP: 7 * t + 1,
             segyio.TraceField.CDP_X: 1000 + t * t} for t, (i, x) in enumerate(cells)]
    sgy = os.path.join(d, f'irr{k}.sgy')
    inputs.write_segy_traces(sgy, traces, 8.0 + 4.0 * np.arange(nz), hdrs)
    p = os.path.join(d, f'irr{k}.sgz')
    writers.segy_to_sgz(sgy, p, 32, (4, 4, -1), header_detection='thorough')
    mask = np.zeros((ni, nx), dtype=bool)
    for i, x in cells:
        mask[i, x] = True
    return p, mask


def make_source(d, k, spec, seed):
    shape, rate, bs, extra = spec[:4]
    dz = spec[4] if len(spec) > 4 else 4.0
    cube = inputs.cube(shape, seed + k)
    il = 100 + 2 * np.arange(shape[0])
    xl = -7 + 3 * np.arange(shape[1])
    zs = 8.0 + dz * np.arange(shape[2])
    if len(spec) > 5 and spec[5] == 'zero':
        il, xl, zs = -8 + 2 * np.arange(shape[0]), -12 + 3 * np.arange(shape[1]), -16.0 + dz * np.arange(shape[2])
    if len(spec) > 5 and spec[5] == 'desc':
        il, xl = 130 - 2 * np.arange(shape[0]), -7 - 3 * np.arange(shape[1])
    if len(spec) > 5 and spec[5] == 'big':
        il, xl = 150000 + np.arange(shape[0]), 250000 + 2 * np.arange(shape[1])
    th = {}
    t = np.arange(shape[0] * shape[1]).reshape(shape[0], shape[1])
    for j, f in enumerate([segyio.TraceField.CDP_X, segyio.TraceField.CDP, segyio.TraceField.ShotPoint][:extra]):
        th[f] = (t * (j + 3) - 11 * j).astype(np.int32)
    p = os.path.join(d, f'src{k}.sgz')
    writers.numpy_to_sgz(p, cube, writers.rate_arg(rate), bs, ilines=il, xlines=xl, samples=zs, trace_headers=th)
    if len(spec) > 5 and str(spec[5]).startswith('stamp:'):
        from seismic_zfp.version import SeismicZfpVersion
        with open(p, 'r+b') as f:
            f.seek(72)
            f.write(int(SeismicZfpVersion(spec[5][6:]).encoding).to_bytes(4, 'little'))
    return p


def boxes_for(F, rng, quick):
    out = []
    per_axis = []
    for a in range(3):
        n, b = F['n'][a], F['b'][a]
        c = [None, (0, n), (0, min(b, n))]
        if n > b:
            c += [(b, n), (b, min(2 * b, n)), (1, b + 1), (b - 1, b + 1), (b + 1, n - 1), (n - 1, n), (0, 1)]
        else:
            c += [(1, n), (0, n - 1), (n - 1, n)]
        per_axis.append([x for x in c if x is None or x[0] < x[1]])
    full = [(i, x, z) for i in per_axis[0] for x in per_axis[1] for z in per_axis[2] if not (i is None and x is None and z is None)]
    k = 36 if quick else 400
    idx = rng.choice(len(full), size=min(len(full), k), replace=False)
    out += [('index', full[i]) for i in sorted(idx)]
    out += [('coord', full[i]) for i in sorted(idx)[::3]]
    n = F['n']
    for bad in [(None, None, None), ((2, 2), None, None), (None, (3, 1), None), (None, None, (5, 5)), ((-1, 3), None, None), (None, (0, n[1] + 1), None),
                (None, None, (0, n[2] + 4)), ((n[0], n[0] + 1), None, None), ((0, n[0]), (0, n[1]), (n[2], n[2]))]:
        out.append(('index', bad))
    # the same kinds of refusal addressed by coordinate: inverted and empty ranges (in-range coordinates)
    for bad in [((min(3, n[0] - 1), 1), None, None), (None, (min(4, n[1] - 1), 0), None), (None, None, (min(6, n[2] - 1), 2)), ((2, 2), None, None),
                (None, None, (3, 3))]:
        out.append(('coord', bad))
    return out


def _snapshot(p):
    from seismic_zfp.read import SgzReader
    keys = sgzfile.trace_keys()
    with env.quiet():
        with SgzReader(p) as r:
            return {'vol': r.read_volume(), 'il': np.asarray(r.ilines), 'xl': np.asarray(r.xlines), 'z': np.asarray(r.zslices), 'ntr': int(r.tracecount),
                    'structured': bool(r.structured), 'stored': [int(k) for k in r.stored_header_keys],
                    'hdr': np.array([[int(h[segyio.TraceField(k)]) for k in keys] for h in (r.gen_trace_header(i) for i in range(r.tracecount))], dtype=np.int64),
                    'tf': {int(k): np.asarray(r.get_tracefield_values(k)).astype(np.int64) for k in r.stored_header_keys},
                    'text': bytes(r.file_text_header), 'bin': bytes(r.file_binary_header), 'hash': r.get_source_data_hash()}


def _worker(item):
    ci, (si, mode, box) = item
    from seismic_zfp.cropping import SgzCropper
    from seismic_zfp.read import SgzReader
    S = par.G['sources'][si]
    d = env.subdir(f'c10-{os.getpid()}')
    out_p = os.path.join(d, f'crop{ci}.sgz')
    if os.path.exists(out_p):
        os.remove(out_p)
    res = {}
    try:
        with env.quiet():
            with SgzCropper(S['path']) as c:
                if ci % 3 == 0 and c.stored_header_keys:      # a cropper that has already served reads (header words out of table order)
                    c.get_tracefield_values(c.stored_header_keys[-1])
                    c.gen_trace_header(1)
                    c.read_inline(0)
                if mode == 'index':
                    c.write_cropped_file_by_indexes(out_p, *box)
                else:
                    axes = (S['snap']['il'], S['snap']['xl'], S['snap']['z'])
                    cr = []
                    for a, r in enumerate(box):
                        if r is None:
                            cr.append(None)
                        else:
                            ax = axes[a]
                            stop = ax[r[1]] if r[1] < len(ax) else ax[-1] + (ax[-1] - ax[-2])
                            cr.append((ax[r[0]].item(), stop.item() if hasattr(stop, 'item') else stop))
                    c.write_cropped_file_by_coords(out_p, *cr)
        res['outcome'] = 'file'
        W = _snapshot(out_p)
        with open(out_p, 'rb') as f:
            raw = f.read()
        F, meta, H = c03.parse(out_p)
        res['H'] = H
        nblocks = H['data_blocks']
        res['data'] = raw[H['n_header_blocks'] * 4096:H['n_header_blocks'] * 4096 + nblocks * 4096]
        res['W'] = {k: W[k] for k in ('ntr', 'structured', 'stored', 'hash')}
        res['W'].update({'il': W['il'].tolist(), 'xl': W['xl'].tolist(), 'z': W['z'].tolist()})
        res['_W'] = W
        # a handful of other read paths on the cropped file against the same paths of the source restricted to the box
    except BaseException as e:
        if isinstance(e, (KeyboardInterrupt, SystemExit, MemoryError)):
            raise
        res['outcome'] = 'raise'
        res['exc'] = type(e).__name__
        res['is_index_error'] = isinstance(e, IndexError)
        res['msg'] = str(e)[:120]
        res['output_left'] = os.path.exists(out_p)
    finally:
        if os.path.exists(out_p):
            os.remove(out_p)
    return res


def judge(run, S, mode, box, r, ev):
    F = S['F']
    case = {'source': S['label'], 'addressing': mode, 'box': [list(x) if x is not None else None for x in box]}
    run.case(case)
    if isinstance(r, par.Crash):
        run.fail('C10.crops', case, str(r), 'a file or IndexError')
        return
    must_refuse = all(x is None for x in box) or any(x is not None and (x[0] >= x[1] or x[0] < 0 or x[1] > F['n'][a]) for a, x in enumerate(box))
    if ev['refused'] != must_refuse:
        run.drift(f'{case}: SgzTransform!CropRefused = {ev["refused"]} but the property refuses = {must_refuse}')
    if must_refuse:
        run.check(r['outcome'] == 'raise' and r.get('is_index_error') and not r.get('output_left'), 'C10.refusal', case,
                  {k: r.get(k) for k in ('outcome', 'exc', 'output_left')}, 'IndexError and no output file')
        return
    if r['outcome'] != 'file':
        run.fail('C10.crops', case, {k: r.get(k) for k in ('exc', 'msg')}, 'a cropped file')
        return
    # the box widened outward to the blockshape and clipped (the property's own arithmetic, not the model's)
    lo, hi = [], []
    for a in range(3):
        x = box[a] if box[a] is not None else (0, F['n'][a])
        b = F['b'][a]
        lo.append((x[0] // b) * b)
        hi.append(min(-(-x[1] // b) * b, F['n'][a]))
    src = S['snap']
    W = r['_W']
    sl = tuple(slice(lo[a], hi[a]) for a in range(3))
    run.check(W['vol'].shape == src['vol'][sl].shape and codec.same_bits(W['vol'], src['vol'][sl]), 'C10.decoded', case, {'shape': list(W['vol'].shape)},
              {'aligned_box': [lo, hi]})
    run.check(np.array_equal(W['il'], src['il'][sl[0]]) and np.array_equal(W['xl'], src['xl'][sl[1]]), 'C10.line-axes', case,
              {'il': W['il'][:3].tolist(), 'xl': W['xl'][:3].tolist()}, {'il': src['il'][sl[0]][:3].tolist(), 'xl': src['xl'][sl[1]][:3].tolist()})
    zexp = src['z'][sl[2]]
    run.check(len(W['z']) == len(zexp) and np.allclose(W['z'], zexp, rtol=0, atol=1e-9), 'C10.sample-axis', dict(case, z_origin_whole_ms=float(zexp[0]).is_integer()),
              W['z'][:3].tolist(), zexp[:3].tolist())
    nx = F['n'][1]
    box_n = (hi[0] - lo[0]) * (hi[1] - lo[1])
    if S.get('mask') is None:
        rows = np.array([i * nx + x for i in range(lo[0], hi[0]) for x in range(lo[1], hi[1])], dtype=np.int64)
    else:        # irregular source: the traces present in the box, in raster order; the result stays irregular unless the box has no hole
        ordmap = -np.ones(S['mask'].shape, dtype=np.int64)
        ordmap[S['mask']] = np.arange(int(S['mask'].sum()))
        sub = ordmap[lo[0]:hi[0], lo[1]:hi[1]].reshape(-1)
        rows = sub[sub >= 0]
    ntr = len(rows)
    run.check(W['ntr'] == ntr and W['structured'] == (ntr == box_n), 'C10.tracecount-structured', case, {'ntr': W['ntr'], 'structured': W['structured']}, ntr)
    exp_hdr = src['hdr'][rows].copy()
    run.check(W['hdr'].shape == exp_hdr.shape and np.array_equal(W['hdr'], exp_hdr), 'C10.trace-headers', case,
              {'first_bad': (np.argwhere(W['hdr'] != exp_hdr)[:1].tolist() if W['hdr'].shape == exp_hdr.shape else 'shape')}, 'headers of the corresponding source traces')
    run.check(W['stored'] == src['stored'] and all(np.array_equal(W['tf'][k], src['tf'][k][lo[0]:hi[0], lo[1]:hi[1]]) for k in W['stored'] if k in src['tf']),
              'C10.tracefield-arrays', case, W['stored'], src['stored'])
    run.check(W['text'] == src['text'] and W['hash'] == src['hash'], 'C10.file-header-kept', case, None, None)
    # model vs code: the data section is what the model's copy map assembles from the source data section
    if not ev['refused']:
        sd = S['data']
        ub = F['ub']
        want = b''.join(sd[o:o + ub] for o in ev['copy'])
        if want != r['data'] or list(ev['n']) != [hi[a] - lo[a] for a in range(3)] or not ev['ok']:
            run.drift(f'{case}: data section differs from SgzTransform!CropCopy ({len(want)} vs {len(r["data"])} bytes, n {ev["n"]})')
        else:
            run.traces_validated += 1
    return {'T': S['T'], 'lo': lo, 'hi': hi, 'H': r['H'], 'case': case, 'z0_us': S.get('z0_us', 8000), 'ntr': ntr}


def prepare(run):
    d = env.subdir('c10src')
    quick = run.tier == 'quick'
    specs = (SOURCES[:7] if quick else SOURCES) + [ZERO_SOURCE, DESC_SOURCE, BIG_SOURCE, SUB_SOURCE] + (STAMP_SOURCES[:2] if quick else [SUB_SOURCE_B] + STAMP_SOURCES)
    S = []
    for k, spec in enumerate(specs + ['dup', 'irr']):
        mask = None
        if spec == 'dup':
            p = make_dup_source(d, k, run.seed)
            spec = ((9, 10, 70), 32, (4, 4, -1), 'dup')
        elif spec == 'irr':
            p, mask = make_irregular_source(d, k, run.seed)
            spec = ((9, 10, 70), 32, (4, 4, -1), 'irr')
        else:
            p = make_source(d, k, spec, run.seed)
        fc = session.FileCase(p)
        with open(p, 'rb') as f:
            raw = f.read()
        F, meta, H = c03.parse(p)
        shape, rate, bs, extra = spec[:4]
        zero = len(spec) > 5 and spec[5] == 'zero'
        desc = len(spec) > 5 and spec[5] == 'desc'
        big = len(spec) > 5 and spec[5] == 'big'
        dz_us = int(round(1000 * (spec[4] if len(spec) > 4 else 4.0)))
        S.append({'path': p, 'label': f'numpy{shape}r{rate}b{bs}h{extra}' + (f' {spec[5]}' if len(spec) > 5 and str(spec[5]).startswith('stamp:') else ''), 'F': fc.F, 'snap': _snapshot(p), 'data': raw[H['n_header_blocks'] * 4096:H['n_header_blocks'] * 4096 + H['data_blocks'] * 4096],
                  'T': c03.truth(3, shape, fc.F['b'], rate, shape[0] * shape[1], (-8, 2) if zero else (130, -2) if desc else (150000, 1) if big else (100, 2), (-12, 3) if zero else (-7, -3) if desc else (250000, 2) if big else (-7, 3),
                                 8 if not zero else -16, dz_us, source_format=20 if extra not in ('dup', 'irr') else 0), 'mask': mask,
                  **({'z0_us': -16000} if zero else {})})
    # a source that already uses the float64 sample-axis fields: a crop of the 1001 us source starting between whole milliseconds
    from seismic_zfp.cropping import SgzCropper
    frac = [x for x in S if '(17, 18, 40)' in x['label'] and 'h1' in x['label'] and x['T']['dz_us'] == 125]
    if frac:
        p2 = os.path.join(d, 'cropfrac.sgz')
        with env.quiet():
            with SgzCropper(frac[0]['path']) as c:
                c.write_cropped_file_by_indexes(p2, None, None, (4, 40))          # first sample 8.5 ms
        fc = session.FileCase(p2)
        with open(p2, 'rb') as f:
            raw = f.read()
        F, meta, H = c03.parse(p2)
        S.append({'path': p2, 'label': 'crop-of-125us(17, 18, 36)', 'F': fc.F, 'snap': _snapshot(p2), 'data': raw[H['n_header_blocks'] * 4096:H['n_header_blocks'] * 4096 + H['data_blocks'] * 4096],
                  'T': c03.truth(3, (17, 18, 36), fc.F['b'], 32, 17 * 18, (100, 2), (-7, 3), 8, 125, source_format=20), 'z0_us': 8500})
    # archived files of older releases (single header block / unpadded footer / interval in ms / no trace-count field)
    for k, name in enumerate(FIXTURE_SOURCES):
        p3, T = c03.stage_fixture(d, 900 + k, name)
        T.pop('nojudge', None)
        fc = session.FileCase(p3)
        with open(p3, 'rb') as f:
            raw = f.read()
        F, meta, H = c03.parse(p3)
        S.append({'path': p3, 'label': f'fixture {name}', 'F': fc.F, 'snap': _snapshot(p3),
                  'data': raw[H['n_header_blocks'] * 4096:H['n_header_blocks'] * 4096 + H['data_blocks'] * 4096], 'T': T, 'z0_us': T['z0'] * 1000})
    return S


FIXTURE_SOURCES = ['small_v0.0.1.sgz', 'small_8bit-8x8.sgz', 'small-dec_8bit.sgz', 'padding/padding_6x7.sgz']


def run(run):
    quick = run.tier == 'quick'
    run.mc('MC_Transform', f'MC_Transform_crop_{run.tier}', timeout=3000)
    session.fields()
    S = prepare(run)
    par.G['sources'] = S
    rng = np.random.default_rng(run.seed)
    jobs = []
    for si, s in enumerate(S):
        for mode, box in boxes_for(s['F'], rng, quick):
            jobs.append((si, mode, box))
    items = [{'op': 'crop', 'F': {k: v for k, v in S[si]['F'].items() if k in ('dim', 'n', 'b', 'ub', 'hblk', 'padfoot', 'narr', 'ntr')},
              'box': [list(x) if x is not None else [] for x in box]} for si, mode, box in jobs]
    out = tlc.oracle('Gen_Transform', {'items': items}, key='items', timeout=1800, per_shard=25)
    run.add_tlc({'distinct': 0, 'generated': out['_tlc']['generated'], 'wall_s': out['_tlc']['wall_s']}, 'Gen_Transform(crop)')
    res = par.pmap(_worker, list(enumerate(jobs)), chunksize=2)
    conf = []
    for (si, mode, box), r, ev in zip(jobs, res, out['items']):
        c = judge(run, S[si], mode, box, r, ev)
        if c:
            conf.append(c)
    # conformance of every cropped file (C03's conjuncts, decided by TLC) for the truth = source truth restricted to the aligned box
    items = []
    for c in conf:
        T = dict(c['T'])
        n = [c['hi'][a] - c['lo'][a] for a in range(3)]
        T['F'] = dict(T['F'], n=n, ntr=c['ntr'])
        T['il0'] = T['il0'] + c['lo'][0] * T['ilstep']
        T['xl0'] = T['xl0'] + c['lo'][1] * T['xlstep']
        T['z0'] = (c['z0_us'] + c['lo'][2] * T['dz_us']) // 1000        # the integer word holds whole milliseconds
        T['check_version'] = False
        items.append({'T': T, 'H': c['H']})
    if items:
        o = tlc.oracle('Gen_Conform', {'items': items}, key='items')
        run.add_tlc({'distinct': 0, 'generated': o['_tlc']['generated'], 'wall_s': o['_tlc']['wall_s']}, 'Gen_Conform')
        for c, oo in zip(conf, o['items']):
            failed = [f[0] for f in oo['failed']]
            run.check(not failed, 'C10.conformant', c['case'], failed, [])


def replay(run, rep):
    c = rep['case']
    session.fields()
    S = prepare(run)
    par.G['sources'] = S
    si = [i for i, s in enumerate(S) if s['label'] == c['source']]
    if not si:
        return
    box = tuple(tuple(x) if x is not None else None for x in c['box'])
    ev = tlc.oracle('Gen_Transform', {'items': [{'op': 'crop', 'F': {k: v for k, v in S[si[0]]['F'].items() if k in ('dim', 'n', 'b', 'ub', 'hblk', 'padfoot', 'narr', 'ntr')},
                                                 'box': [list(x) if x is not None else [] for x in box]}]}, key='items')['items'][0]
    r = _worker((0, (si[0], c['addressing'], box)))
    cc = judge(run, S[si[0]], c['addressing'], box, r, ev)
    if cc and rep['clause'] == 'C10.conformant':
        T = dict(cc['T'])
        n = [cc['hi'][a] - cc['lo'][a] for a in range(3)]
        T['F'] = dict(T['F'], n=n, ntr=cc['ntr'])
        T['il0'] += cc['lo'][0] * T['ilstep']
        T['xl0'] += cc['lo'][1] * T['xlstep']
        T['z0'] = (cc['z0_us'] + cc['lo'][2] * T['dz_us']) // 1000
        T['check_version'] = False
        o = tlc.oracle('Gen_Conform', {'items': [{'T': T, 'H': cc['H']}]}, key='items')['items'][0]
        run.check(not o['failed'], 'C10.conformant', c, [f[0] for f in o['failed']], [])
