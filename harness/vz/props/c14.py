"""C14 bounds safety: an argument tuple outside the real extent raises IndexError / the dimensionality error or
returns the real item Python indexing denotes - never padding, footer or a neighbour."""
import os
import struct

import numpy as np

from .. import env, inputs, readcalls, session, writers

FINISH = dict(
    level='model_checking',
    rule='per file (3-D default / z-slice / general layout, irregular, 2-D with b1=4 and b1!=4, padding made '
         'distinguishable by writing a larger cube and shrinking the header extent): every public read method x '
         'argument tuples with a component just outside, far outside, negative, inside the padded extent, empty, '
         'reversed; allowed outcomes from TLC (SgzApi!Ideal); non-trivial = distinct (file, op, args)',
    assumptions=['padding voxels of the crafted files decode to values that differ bitwise from every real voxel'],
    trusted=['zfpy', 'numpy', 'TLC'])


def shrink(path, real, dim=3):
    """Rewrite the header extent of a file written from a larger cube so that what used to be real data is now
    padding (distinguishable from the real volume)."""
    with open(path, 'r+b') as f:
        hdr = bytearray(f.read(8192))
        if dim == 3:
            ni, nx, nz = real
            hdr[4:8] = struct.pack('<I', nz)
            hdr[8:12] = struct.pack('<I', nx)
            hdr[12:16] = struct.pack('<I', ni)
            hdr[60:64] = struct.pack('<I', 4 * ni * nx)
            hdr[68:72] = struct.pack('<I', ni * nx)
        else:
            nt, nz = real
            hdr[4:8] = struct.pack('<I', nz)
            hdr[60:64] = struct.pack('<I', 4 * nt)
            hdr[68:72] = struct.pack('<I', nt)
        f.seek(0)
        f.write(hdr)


def crafted_files(run, tier):
    d = env.subdir('c14w')
    out = []
    # (written shape, real shape, rate, blockshape): written shape is the padded extent of the real one
    combos = [((8, 8, 128), (5, 6, 70), 32, (4, 4, 64)), ((16, 16, 8), (9, 10, 6), 32, (16, 16, 4)),
              ((8, 16, 32), (5, 9, 20), 32, (8, 8, 16))]
    if tier == 'thorough':
        combos += [((12, 8, 256), (9, 7, 130), 16, (4, 4, 128)), ((8, 16, 64), (6, 9, 40), 32, (4, 8, 32)),
                   ((32, 16, 8), (17, 9, 5), 32, (16, 16, 4)), ((4, 4, 64), (2, 2, 2), 32, (4, 4, 64))]
    # the last file has large line numbers (a relative tolerance of 1e-5 would reach the neighbouring line)
    combos += [((8, 8, 64), (6, 7, 40), 32, (4, 4, 64))]
    for k, (wshape, real, rate, bs) in enumerate(combos):
        p = os.path.join(d, f'p{k}.sgz')
        cube = inputs.cube(wshape, run.seed + 10 + k, 'noise')
        big = k == len(combos) - 1
        try:
            writers.numpy_to_sgz(p, cube, rate, bs, ilines=(np.arange(wshape[0]) + 100010) if big else np.arange(wshape[0]) * 2 + 10,
                                 xlines=(np.arange(wshape[1]) * 2 + 150000) if big else np.arange(wshape[1]) + 5,
                                 samples=(0.0, 100.0, -1000.0)[k % 3] + np.arange(wshape[2]) * 4.0)       # axis from zero / starting later / wholly before zero
        except BaseException as e:
            run.notes.append(f'writer refused {wshape} {rate} {bs}: {type(e).__name__}: {e}')
            continue
        shrink(p, real)
        out.append(session.FileCase(p, label=f'crafted{real}in{wshape}b{bs}'))
    return out


def crafted_2d(run, tier):
    """2-D files need a SEG-Y source"""
    import segyio
    d = env.subdir('c14w2')
    out = []
    combos = [((12, 128), (9, 70), 8, (1, 4, 1024)), ((16, 256), (9, 130), 8, (1, 16, 256))]
    if tier == 'thorough':
        combos += [((32, 64), (19, 40), 16, (1, 16, 128)), ((8, 2048), (5, 1100), 4, (1, 4, 2048))]
    for k, (wshape, real, rate, bs) in enumerate(combos):
        sgy = os.path.join(d, f's{k}.sgy')
        p = os.path.join(d, f'q{k}.sgz')
        data = inputs.cube(wshape, run.seed + 30 + k, 'noise')
        hdrs = [{segyio.TraceField.CDP_X: 100 + t, segyio.TraceField.CDP_Y: 7 * t, segyio.TraceField.CDP: t + 1}
                for t in range(wshape[0])]
        inputs.write_segy_traces(sgy, data, (100.0, 0.0)[k % 2] + np.arange(wshape[1]) * 4.0, hdrs)
        try:
            writers.segy_to_sgz(sgy, p, rate, bs)
        except BaseException as e:
            run.notes.append(f'2d writer refused {wshape} {rate} {bs}: {type(e).__name__}: {e}')
            continue
        shrink(p, real, dim=2)
        out.append(session.FileCase(p, label=f'crafted2d{real}in{wshape}b{bs}'))
    return out


def classify(ans):
    return 'inrange' if len(ans['alts']) == 1 and ans['alts'][0]['kind'] != 'raise' else 'oor'


def run(run):
    from seismic_zfp.read import SgzReader
    run.mc('MC_Reader', f'MC_Reader_C14_{run.tier}')
    rng = np.random.default_rng(run.seed)
    quick = run.tier == 'quick'
    fx = inputs.fixture_sgz()
    keep = ('small-irregular', 'small-2d', 'small_hole') if quick else ('small-irregular', 'small-2d', 'small_hole', 'small_8bit-8x8',
                                                                          'small_2bit-64x64', 'padding_5x7', 'small-dec', 'small_025')
    fx = [f for f in fx if any(k in f for k in keep)]
    cases = session.load_files([session.FileCase(p) for p in fx] + crafted_files(run, run.tier) + crafted_2d(run, run.tier), run)
    calls = []
    NONE = readcalls.NONE
    for fi, fc in enumerate(cases):
        # the sample time 0 when it lies OUTSIDE the axis (an axis that starts later, or lies wholly before zero): out of range like any other
        z0, dz, nz_ = fc.meta['z0'], fc.meta['dz'], fc.F['n'][2]
        if dz and (z0 / dz).denominator == 1 and (z0 > 0 or z0 + dz * (nz_ - 1) < 0):
            c0 = int(-2 * z0 / dz)
            t = readcalls.tracecount(fc.F) - 1
            for a in ([t, c0, 2 * min(nz_, 3)], [0, 2, c0], [t, c0, c0], [0, c0, NONE], [t, NONE, c0]):
                calls.append((fi, 'get_trace_by_coord', a))
            if fc.F['dim'] == 3:
                calls.append((fi, 'read_zslice_coord', [c0]))
        for j, (op, a) in enumerate(readcalls.out_of_range_calls(fc.F, rng)):
            calls.append((fi, op, a))
            if j % 12 == 11:        # a valid call on the reader that has just refused a dozen: a refusal leaves nothing behind
                ni, nx, nz = fc.F['n']
                if fc.F['dim'] == 2:
                    calls.append((fi, 'get_trace', [(j // 12) % nx, NONE, NONE]))
                else:
                    calls.append((fi, ('read_inline', 'get_trace', 'read_crossline', 'read_zslice')[(j // 12) % 4],
                                  [[0], [readcalls.tracecount(fc.F) - 1, NONE, NONE], [nx - 1], [nz - 1]][(j // 12) % 4]))
    answers = session.eval_calls(cases, calls, run)
    readers = {}
    for (fi, op, a), ans in zip(calls, answers):
        fc = cases[fi]
        if classify(ans) == 'inrange':
            if fi in readers:       # (the generator also emits a few tuples that are in range for small extents)
                case = {'file': fc.label, 'op': op, 'args': a, 'F': {k2: fc.F[k2] for k2 in ('dim', 'n', 'b', 'ub')}}
                run.case(case)
                with env.quiet():
                    out = readcalls.invoke(readers[fi], op, a)
                ok, detail = readcalls.compare(out, ans['alts'], fc.ref,
                                               header_of=lambda t, fc=fc, ans=ans: fc.header([x for x in ans['alts'] if x['kind'] == 'header'][0]['grid']))
                run.check(ok, f'C14.valid-after-refusals[{op}]', case, detail, 'the real data')
            continue
        if fi not in readers:
            with env.quiet():
                readers[fi] = SgzReader(fc.path)
        case = {'file': fc.label, 'op': op, 'args': a, 'F': {k2: fc.F[k2] for k2 in ('dim', 'n', 'b', 'ub')}}
        run.case(case)
        with env.quiet():
            out = readcalls.invoke(readers[fi], op, a)
        ok, detail = readcalls.compare(out, ans['alts'], fc.ref,
                                       header_of=lambda t, fc=fc, ans=ans: fc.header([x for x in ans['alts'] if x['kind'] == 'header'][0]['grid']))
        mk = ans['model']['kind']
        if mk not in ('unmodelled', 'skipped'):
            if (mk == 'value' and out[0] == 'value') or (out[0] == 'raise' and mk in out[2]):
                run.traces_validated += 1
            else:
                run.drift(f'model outcome {mk} vs code {readcalls.describe(out)[:60]} for {op}{a} on {fc.label}')
        if not ok and out[0] == 'raise':
            # raised, but not the class the property names
            run.fail(f'C14.exc-class[{op}]', case, detail, [x.get('exc', x['kind']) for x in ans['alts']])
        else:
            run.check(ok, f'C14.no-unreal-data[{op}]', case, detail, [x.get('exc', x['kind']) for x in ans['alts']])
    for r in readers.values():
        with env.quiet():
            r.close()
    # the same refusals on a reader that has SERVED reads of every kind first (lines, slices, traces, headers, every stored header array):
    # what a reader keeps from earlier answers must not turn a position outside the real extent into an item
    for fi, fc in enumerate(cases):
        mine = [(op, a, ans) for (fj, op, a), ans in zip(calls, answers) if fj == fi and classify(ans) != 'inrange']
        mine = [x for k, x in enumerate(mine) if x[0] in ('gen_trace_header', 'get_trace') or k % 5 == 0]
        if not mine:
            continue
        for order in ('reads-first', 'arrays-first'):
            with env.quiet():
                r = warm_reader(fc, order)
            for op, a, ans in (mine if order == 'reads-first' else [x for x in mine if x[0] in ('gen_trace_header', 'get_trace')]):
                case = {'file': fc.label, 'op': op, 'args': a, 'warm': order, 'F': {k2: fc.F[k2] for k2 in ('dim', 'n', 'b', 'ub')}}
                run.case(case)
                with env.quiet():
                    out = readcalls.invoke(r, op, a)
                ok, detail = readcalls.compare(out, ans['alts'], fc.ref,
                                               header_of=lambda t, fc=fc, ans=ans: fc.header([x for x in ans['alts'] if x['kind'] == 'header'][0]['grid']))
                run.check(ok, f'C14.no-unreal-data-after-reads[{op}]', case, detail, [x.get('exc', x['kind']) for x in ans['alts']])
            with env.quiet():
                r.close()
    run.extra['files'] = [c.label for c in cases]
    accessor_calls(run, cases)


def warm_reader(fc, order='reads-first'):
    """a reader that has answered one valid call of every kind, and returned every stored header array (before or after them)"""
    from seismic_zfp.read import SgzReader
    r = SgzReader(fc.path)
    ni, nx, nz = fc.F['n']
    tc = readcalls.tracecount(fc.F)
    NONE = readcalls.NONE
    if fc.F['dim'] == 2:
        warm = [('get_trace', [0, NONE, NONE]), ('get_trace', [nx - 1, NONE, NONE]), ('read_subplane', [0, nx, 0, nz]), ('gen_trace_header', [nx - 1])]
    else:
        warm = [('read_inline', [ni - 1]), ('read_crossline', [nx - 1]), ('read_zslice', [nz - 1]), ('get_trace', [tc - 1, NONE, NONE]),
                ('read_subvolume', [0, ni, 0, nx, 0, nz]), ('gen_trace_header', [tc - 1])]
    def arrays():
        for k in fc.stored:
            try:
                r.get_tracefield_values(int(k))
            except Exception:
                pass
    if order == 'arrays-first':
        arrays()
    for op, a in warm:
        readcalls.invoke(r, op, a)
    if order != 'arrays-first':
        arrays()
    return r


ACC = {'trace': 'get_trace', 'header': 'gen_trace_header', 'depth_slice': 'read_zslice'}


def accessor_calls(run, cases, only=None):
    """the segyio-style accessors take ordinals with Python's meaning: -len <= i < len is an item, anything else IndexError"""
    import seismic_zfp
    calls, meta = [], []
    for fi, fc in enumerate(cases):
        F = fc.F
        tc = readcalls.tracecount(F)
        for acc, op in ACC.items():
            if acc == 'depth_slice' and F['dim'] == 2:
                continue
            n = F['n'][2] if acc == 'depth_slice' else tc
            for i in (-n - 1, -n - 2, -2 * n, -2 * n - 1, -10 * n, n, n + 1, 3 * n, -1, -n, -n + 1):
                if only is not None and (fc.label, acc, i) != only:
                    continue
                norm = i + n if -n <= i < 0 else i
                calls.append((fi, op, [norm, readcalls.NONE, readcalls.NONE] if op == 'get_trace' else [norm]))
                meta.append((fi, acc, i, n))
    answers = session.eval_calls(cases, calls, run, model=False)
    emus = {}
    try:
        for (fi, acc, i, n), (_, op, a), ans in zip(meta, calls, answers):
            fc = cases[fi]
            if fi not in emus:
                with env.quiet():
                    emus[fi] = seismic_zfp.open(fc.path)
            case = {'file': fc.label, 'op': 'emu.' + acc, 'args': [i], 'len': n}
            run.case(case)
            with env.quiet():
                try:
                    v = getattr(emus[fi], acc)[i]
                    out = ('header', dict(v)) if acc == 'header' else ('value', np.asarray(v))
                except BaseException as e:
                    if isinstance(e, (KeyboardInterrupt, SystemExit, MemoryError)):
                        raise
                    out = ('raise', type(e).__name__, [c.__name__ for c in type(e).__mro__])
            inside = -n <= i < n
            if not inside:
                okk = out[0] == 'raise' and 'IndexError' in out[2]
                run.check(okk, f'C14.no-unreal-data[emu.{acc}]', case, readcalls.describe(out)[:120], 'IndexError')
            else:
                okk, detail = readcalls.compare(out, ans['alts'], fc.ref,
                                                header_of=lambda t, fc=fc, ans=ans: fc.header([x for x in ans['alts'] if x['kind'] == 'header'][0]['grid']))
                run.check(okk, f'C14.no-unreal-data[emu.{acc}]', case, detail, 'the item Python indexing denotes')
        # line numbers / sample times that lie BETWEEN two coordinates of a non-unit axis: no such line, so no data
        for fi, fc in enumerate(cases):
            F = fc.F
            if F['dim'] != 3 or only is not None:
                continue
            if fi not in emus:
                with env.quiet():
                    emus[fi] = seismic_zfp.open(fc.path)
            e = emus[fi]
            il, xl, zs = np.asarray(e.ilines), np.asarray(e.xlines), np.asarray(e.subvolume.zslices_int)
            dil, dxl, dz = int(il[1] - il[0]), int(xl[1] - xl[0]), int(zs[1] - zs[0])
            probes = []
            if abs(dil) > 1:
                mid = int(il[1] + (1 if dil > 0 else -1))
                probes += [('emu.iline', lambda e=e, mid=mid: e.iline[mid]), ('emu.subvolume', lambda e=e, mid=mid: e.subvolume[mid:int(il[-1]) + dil:dil, int(xl[0]):int(xl[1]) + dxl:dxl, int(zs[0]):int(zs[1]) + dz:dz]),
                           ('emu.subvolume', lambda e=e, mid=mid: e.subvolume[int(il[0]):mid:dil, int(xl[0]):int(xl[1]) + dxl:dxl, int(zs[0]):int(zs[1]) + dz:dz])]
            if abs(dxl) > 1:
                midx = int(xl[1] + (1 if dxl > 0 else -1))
                probes += [('emu.xline', lambda e=e, midx=midx: e.xline[midx]), ('emu.subvolume', lambda e=e, midx=midx: e.subvolume[int(il[0]):int(il[1]) + dil:dil, midx:int(xl[-1]) + dxl:dxl, int(zs[0]):int(zs[1]) + dz:dz])]
            if abs(dz) > 1:
                midz = int(zs[1] + 1)
                probes += [('emu.subvolume', lambda e=e, midz=midz: e.subvolume[int(il[0]):int(il[1]) + dil:dil, int(xl[0]):int(xl[1]) + dxl:dxl, midz:int(zs[-1]) + dz:dz]),
                           ('emu.subvolume', lambda e=e, midz=midz: e.subvolume[int(il[0]):int(il[1]) + dil:dil, int(xl[0]):int(xl[1]) + dxl:dxl, int(zs[0]):midz:dz])]
            for j, (name, thunk) in enumerate(probes):
                case = {'file': fc.label, 'op': name + '[between coordinates]', 'args': [j]}
                run.case(case)
                with env.quiet():
                    try:
                        v = thunk()
                        out = ('value', np.asarray(v))
                    except BaseException as ex:
                        if isinstance(ex, (KeyboardInterrupt, SystemExit, MemoryError)):
                            raise
                        out = ('raise', type(ex).__name__, [c.__name__ for c in type(ex).__mro__])
                run.check(out[0] == 'raise', f'C14.no-unreal-data[{name}]', case, readcalls.describe(out)[:120], 'an exception: there is no such line / sample')
        # the xarray backend addressed by position without a coordinate index in front of it: a position at or beyond the extent
        for fi, fc in enumerate(cases):
            F = fc.F
            if F['dim'] != 3 or only is not None or F['mask'] or max(F['n']) > 400:
                continue
            try:
                import xarray as xr
                with env.quiet():
                    ds = xr.open_dataset(fc.path, engine=__import__('seismic_zfp.sgz_xarray', fromlist=['x']).SeismicZfpBackendEntrypoint)
            except BaseException as ex:
                if isinstance(ex, (KeyboardInterrupt, SystemExit, MemoryError)):
                    raise
                run.drift(f'{fc.label}: the xarray backend does not open the file: {type(ex).__name__}')
                continue
            ni, nx, nz = F['n']
            var = ds.variables['data']
            for j, key in enumerate(((ni, 0, 0), (0, nx, 0), (0, 0, nz), (ni + 3, slice(0, 2), slice(0, 2)), (slice(0, 2), nx + 1, 0), (0, slice(0, 2), nz + 5))):
                case = {'file': fc.label, 'op': 'xarray.variable[position beyond the extent]', 'args': [j]}
                run.case(case)
                with env.quiet():
                    try:
                        v = np.asarray(var[key].values)
                        out = ('value', v)
                    except BaseException as ex:
                        if isinstance(ex, (KeyboardInterrupt, SystemExit, MemoryError)):
                            raise
                        out = ('raise', type(ex).__name__, [c.__name__ for c in type(ex).__mro__])
                run.check(out[0] == 'raise', 'C14.no-unreal-data[xarray.variable]', case, readcalls.describe(out)[:120], 'an exception: no such position')
            ds.close()
    finally:
        for e in emus.values():
            with env.quiet():
                try:
                    e.__exit__(None, None, None)
                except Exception:
                    pass


def replay(run, rep):
    from seismic_zfp.read import SgzReader
    case = rep['case']
    fx = [p for p in inputs.fixture_sgz() if p.endswith('/' + case['file'])]
    if fx:
        cases = session.load_files([session.FileCase(fx[0])], run)
    else:
        cases = [c for c in session.load_files(crafted_files(run, 'thorough') + crafted_2d(run, 'thorough'), run)
                 if c.label == case['file']]
    fc = cases[0]
    if case['op'].startswith('emu.') or case['op'].startswith('xarray'):
        if 'between coordinates' in case['op'] or case['op'].startswith('xarray'):
            accessor_calls(run, [fc])          # (the whole accessor pass of that file: the probes are built from its axes)
        else:
            accessor_calls(run, [fc], only=(fc.label, case['op'][4:], case['args'][0]))
        return
    ans = session.eval_calls([fc], [(0, case['op'], case['args'])], run)[0]
    with env.quiet():
        r = warm_reader(fc, case['warm'] if isinstance(case.get('warm'), str) else 'reads-first') if case.get('warm') else SgzReader(fc.path)
        out = readcalls.invoke(r, case['op'], case['args'])
        r.close()
    ok, detail = readcalls.compare(out, ans['alts'], fc.ref,
                                   header_of=lambda t: fc.header([x for x in ans['alts'] if x['kind'] == 'header'][0]['grid']))
    run.check(ok, rep['clause'], case, detail, None)
