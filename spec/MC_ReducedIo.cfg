CONSTANT MaxI = 3
CONSTANT MaxX = 3
CONSTANT RBug = "none"
SPECIFICATION Spec
INVARIANT Right
INVARIANT NotTimid
CHECK_DEADLOCK FALSE
