#!/venv/bin/python
"""run every registered check (quick by default) and print a one-line summary each"""
import json, subprocess, sys, time, os
tier = sys.argv[1] if len(sys.argv) > 1 else 'quick'
only = sys.argv[2:] 
m = json.load(open('/verif/MANIFEST.json'))
bad = 0
for c in m['checks']:
    if only and c['property_id'] not in only: continue
    cmd = c['quick_cmd'] if tier == 'quick' else c['thorough_cmd']
    t = time.time()
    p = subprocess.run(cmd, shell=True, cwd='/verif', stdout=subprocess.PIPE, stderr=subprocess.STDOUT, text=True)
    last = [l for l in p.stdout.strip().splitlines() if l.strip()][-1:] or ['']
    kf = sum(1 for l in p.stdout.splitlines() if l.startswith('KNOWN-FINDING'))
    print(f"{c['property_id']} exit={p.returncode} {time.time()-t:6.1f}s known={kf} | {last[0][:150]}", flush=True)
    if p.returncode != 0:
        bad += 1
        print('\n'.join(p.stdout.splitlines()[-12:]))
sys.exit(1 if bad else 0)
