------------------------------ MODULE MC_Reader ------------------------------
(* Exhaustive check, over small geometries at a scaled-down disk block, that the reader as the code does it
   (SgzReader!Call) returns what the API means (SgzApi!Ideal), touches exactly the needed blocks, and refuses or
   gives real-only data for every out-of-range argument tuple.  Enumeration is staged (file -> op -> one argument
   per step) so that TLC's workers share the work. *)
EXTENDS SgzReader, TLC

CONSTANT Tier            \* "quick" | "thorough"

VARIABLES F, op, a
vars == <<F, op, a>>

Axes == [il |-> [s |-> 10, d |-> 2], xl |-> [s |-> 7, d |-> -3], zs |-> [s |-> 0, d |-> 2]]
File(dim, n, b, mask) ==
    [dim |-> dim, n |-> n, b |-> b, ub |-> 16, hblk |-> 2, padfoot |-> TRUE, narr |-> 0,
     ntr |-> IF dim = 2 THEN n[2] ELSE n[1] * n[2], il |-> Axes.il, xl |-> Axes.xl, zs |-> Axes.zs, mask |-> mask]

Q == Tier = "quick"
Files ==
    \* default layout 4x4xN
    {File(3, <<ni, nx, nz>>, <<4, 4, 16>>, <<>>) : ni \in (IF Q THEN {2, 5} ELSE {2, 4, 5, 9}),
                                                 nx \in (IF Q THEN {3, 8} ELSE {3, 4, 6, 9}), nz \in (IF Q THEN {5, 18} ELSE {5, 16, 18, 33})}
    \cup \* z-slice layout NxNx4
    {File(3, <<ni, nx, nz>>, <<8, 8, 4>>, <<>>) : ni \in (IF Q THEN {3, 9} ELSE {3, 8, 9, 17}),
                                                nx \in (IF Q THEN {10} ELSE {5, 8, 10}), nz \in (IF Q THEN {2, 6} ELSE {2, 4, 6, 9})}
    \cup \* general layouts, one of them with blockshape[0] = 4 but blockshape[1] # 4
    {File(3, <<ni, nx, nz>>, <<4, 8, 8>>, <<>>) : ni \in (IF Q THEN {5} ELSE {3, 5, 8}),
                                                nx \in (IF Q THEN {9} ELSE {7, 8, 9, 17}), nz \in (IF Q THEN {7, 17} ELSE {7, 8, 9, 17})}
    \cup {File(3, <<ni, nx, nz>>, <<8, 4, 8>>, <<>>) : ni \in (IF Q THEN {9} ELSE {7, 9, 16}),
                                                     nx \in (IF Q THEN {5} ELSE {3, 5}), nz \in (IF Q THEN {9} ELSE {8, 9})}
    \cup \* irregular (default layout), holes at the start, in the middle, at the end
    {File(3, <<3, 3, 5>>, <<4, 4, 16>>, m) : m \in {<<FALSE, TRUE, TRUE, TRUE, FALSE, TRUE, TRUE, TRUE, FALSE>>,
                                                   <<TRUE, TRUE, FALSE, FALSE, TRUE, TRUE, TRUE, FALSE, TRUE>>}}
    \cup \* 2-D, bx = 4 and bx # 4
    {File(2, <<1, nt, nz>>, <<1, 4, 16>>, <<>>) : nt \in (IF Q THEN {2, 9} ELSE {2, 4, 5, 9}), nz \in (IF Q THEN {5, 18} ELSE {5, 16, 18, 33})}
    \cup {File(2, <<1, nt, nz>>, <<1, 8, 8>>, <<>>) : nt \in (IF Q THEN {9} ELSE {3, 8, 9, 17}), nz \in (IF Q THEN {9} ELSE {7, 8, 9, 17})}

\* bounds on every residue class, in and out of range
R(n, b) == {v \in {0, 1, 3, 4, 5, b - 1, b, b + 1, n - 1, n} : 0 <= v /\ v <= n}
Out(n, p) == {-1, n + 1, p, p + 1}
Bnd(Fl, ax) == R(Fl.n[ax], Fl.b[ax]) \cup Out(Fl.n[ax], Pa(Fl, ax))
Few(Fl, ax) == {0, Fl.n[ax] - 1, Fl.n[ax]}
Ord(n, p) == (-2)..(p + 1) \cup {0 - n, 0 - n - 1}
ZW(Fl) == {None} \cup Bnd(Fl, 3)

Ops3 == {"read_inline", "read_crossline", "read_zslice", "read_inline_number", "read_crossline_number", "read_zslice_coord",
         "read_volume", "sub/1", "sub/2", "sub/3", "sub/m", "get_trace", "get_trace_by_coord", "read_correlated_diagonal",
         "read_anticorrelated_diagonal", "read_subplane"}
Ops2 == {"read_subplane", "get_trace", "get_trace_by_coord", "read_inline", "read_zslice", "read_subvolume", "read_volume",
         "read_correlated_diagonal", "read_inline_number"}
Arity(o) == CASE o \in {"read_inline", "read_crossline", "read_zslice", "read_inline_number", "read_crossline_number",
                        "read_zslice_coord"} -> 1
              [] o = "read_volume" -> 0
              [] o \in {"sub/1", "sub/2", "sub/3", "sub/m", "read_subvolume"} -> 6
              [] o \in {"get_trace", "get_trace_by_coord"} -> 3
              [] o \in {"read_correlated_diagonal", "read_anticorrelated_diagonal"} -> 5
              [] o = "read_subplane" -> 4
              [] OTHER -> 0
RealOp(o) == IF o \in {"sub/1", "sub/2", "sub/3", "sub/m"} THEN "read_subvolume" ELSE o

Cand(o, k) ==
    CASE o = "read_inline" -> Ord(F.n[1], Pa(F, 1))
      [] o = "read_crossline" -> Ord(F.n[2], Pa(F, 2))
      [] o = "read_zslice" -> Ord(F.n[3], Pa(F, 3))
      [] o = "read_inline_number" -> {F.il.s + j * F.il.d : j \in (-1)..Pa(F, 1)} \cup {F.il.s + 1}
      [] o = "read_crossline_number" -> {F.xl.s + j * F.xl.d : j \in (-1)..Pa(F, 2)} \cup {F.xl.s + 1}
      [] o = "read_zslice_coord" -> (-2)..(2 * Pa(F, 3) + 2)
      [] o \in {"sub/1", "sub/2", "sub/3"} ->
            LET ax == (k + 1) \div 2
                f  == IF o = "sub/1" THEN 1 ELSE IF o = "sub/2" THEN 2 ELSE 3
            IN  IF F.dim = 2 THEN {0, 1} ELSE IF ax = f THEN Bnd(F, ax) ELSE Few(F, ax)
      [] o = "sub/m" -> IF F.dim = 2 THEN {0, 1} ELSE LET ax == (k + 1) \div 2 IN {1, 4, F.b[ax] + 1, F.n[ax]} \cap 0..F.n[ax]
      [] o = "read_subvolume" -> {0, 1}
      [] o = "get_trace" ->
            IF F.dim = 2 THEN (IF k = 1 THEN Ord(F.n[2], Pa(F, 2)) ELSE ZW(F))
            ELSE IF k = 1 THEN {-1, 0, 1, F.n[2] - 1, F.n[2], F.n[2] + 1, TraceCount(F) - 1, TraceCount(F), F.n[1] * F.n[2] - 1,
                                F.n[1] * F.n[2], F.n[1] * Pa(F, 2) - 1, Pa(F, 1) * Pa(F, 2) - 1, 0 - TraceCount(F)}
            ELSE ZW(F)
      [] o = "get_trace_by_coord" ->
            IF k = 1 THEN {-1, 0, 1, TraceCount(F) - 1, TraceCount(F)}
            ELSE {None} \cup {2 * v : v \in Bnd(F, 3)} \cup {1, 2 * F.n[3] - 1}
      [] o \in {"read_correlated_diagonal", "read_anticorrelated_diagonal"} ->
            IF k = 1 THEN (0 - F.n[2] - 1)..(F.n[1] + F.n[2])
            ELSE IF k \in {2, 3} THEN {None, -1, 0, 1, 2, 3, F.n[1], F.n[2]}
            ELSE {None, 0, 1, F.n[3] - 1, F.n[3], F.n[3] + 1, Pa(F, 3)}
      [] o = "read_subplane" ->
            IF F.dim = 3 THEN {0, 1} ELSE IF k <= 2 THEN Bnd(F, 2) ELSE Bnd(F, 3)
      [] OTHER -> {}

Init == F \in Files /\ op = "none" /\ a = <<>>
PickOp == op = "none" /\ op' \in (IF F.dim = 3 THEN Ops3 ELSE Ops2) /\ a' = <<>> /\ UNCHANGED F
PickArg == op # "none" /\ Len(a) < Arity(op) /\ \E v \in Cand(op, Len(a) + 1) : a' = Append(a, v) /\ UNCHANGED <<F, op>>
Next == PickOp \/ PickArg
Spec == Init /\ [][Next]_vars

Complete == op # "none" /\ Len(a) = Arity(op)

\* C02 + C14: the modelled outcome is one the API semantics allows (the single ideal value when in range)
OutcomeAllowed == Complete => Allowed(F, RealOp(op), a)
Coherent   == (Complete /\ InRange(F, RealOp(op), a)) => Allowed(F, RealOp(op), a)          \* C02
BoundsSafe == (Complete /\ ~InRange(F, RealOp(op), a)) => Allowed(F, RealOp(op), a)         \* C14
\* C07: in-range calls touch exactly the needed blocks, no byte twice, nothing outside the data section
IoExact == (Complete /\ InRange(F, RealOp(op), a)) => IoProportional(F, RealOp(op), a)
\* the format itself: unit addresses are a bijection onto the data section
Layout == (op = "none") => (WellFormed(F) /\ LayoutBijective(F))
\* vacuity guards, evaluated by the harness from TLC's coverage: both sides of InRange are reached
SomeInRange == ~(Complete /\ InRange(F, RealOp(op), a) /\ op = "sub/m")
=============================================================================
