"""C08 irregular 3-D surveys: trace identity, inferred grid, zero-filled holes.

TLC (MC_Ingest over SgzIngest, mode "irr") checks on every proper subset of small grids that keeps every line - with independent
starts and increments - that the inferred axes are the true ones with each axis's own increment in its own header word, that the
population mask / ordinal map sends SGZ ordinal i to source trace i, and that every trace is placed at its position with holes
zero.  TLC (Gen_Ingest) enumerates the subsets; each becomes a real inline-sorted SEG-Y, is converted in the three
array-keeping modes and read back through every access path against the ZFP image of the zero-filled, zero-extended grid; the
model is evaluated by TLC on the real header pairs and its header words / placement / ordinal map are compared with the file."""
import os
import struct

import numpy as np
import segyio

from .. import codec, env, inputs, par, sgzfile, tlc, writers

FINISH = dict(
    level='model_checking',
    rule='subsets = every proper subset of 2x2 .. 3x4 / 4x3 grids (quick: seeded sample, thorough: all) in which every inline and crossline '
         'keeps a trace, TLC-enumerated; x starts {-3,1,100} / {-7,0,5}, steps {1,2,3} independent per axis, x detection mode in '
         '{heuristic, thorough, exhaustive}, x rate/blockshape; non-trivial = distinct (grid, subset, axes, mode, setting)',
    assumptions=['the source is inline sorted with crosslines ascending inside an inline', 'no inline is numbered 0 except in the cases kept for known finding D22'],
    trusted=['zfpy', 'numpy', 'segyio', 'TLC'])

MODES = ('heuristic', 'thorough', 'exhaustive')
SETTINGS = ((16, None), (8, (4, 4, -1)), (32, (8, 8, 16)), (4, None))


def build(case, d, tag, seed):
    ni, nx = case['grid']
    cells = [tuple(c) for c in case['cells']]
    il0, ils, xl0, xls = case['axes']
    nz = case['nz']
    n = len(cells)
    traces = inputs.cube((n, nz), seed)
    if n >= 4 and seed % 2 == 0:       # a live trace whose samples are all zero (muted / dead, with valid line numbers): it is a trace, not a hole
        traces[1] = 0.0
    hdrs = []
    for t, (i, x) in enumerate(cells):
        hdrs.append({segyio.TraceField.INLINE_3D: il0 + i * ils, segyio.TraceField.CROSSLINE_3D: xl0 + x * xls,
                     segyio.TraceField.CDP_X: 1000 + 25 * i, segyio.TraceField.CDP_Y: 5000 - 25 * x, segyio.TraceField.CDP: 7 * t + 3,
                     segyio.TraceField.offset: 3, segyio.TraceField.FieldRecord: 20000 + t * t})
    sgy = os.path.join(d, f'{tag}.sgy')
    inputs.write_segy_traces(sgy, traces, np.arange(nz) * 4.0, hdrs)
    grid = np.zeros((ni, nx, nz), dtype=np.float32)
    for t, (i, x) in enumerate(cells):
        grid[i, x, :] = traces[t]
    return sgy, traces, grid, hdrs


def _worker(item):
    ci, case = item
    from seismic_zfp.read import SgzReader
    d = env.subdir(f'c08-{os.getpid()}')
    tag = f'i{ci}'
    out = {}
    sgy = sgz = None
    try:
        sgy, traces, grid, hdrs = build(case, d, tag, par.G['seed'] + ci)
        ni, nx = case['grid']
        cells = [tuple(c) for c in case['cells']]
        il0, ils, xl0, xls = case['axes']
        rate, bs = case['setting']
        sgz = os.path.join(d, tag + '.sgz')
        writers.segy_to_sgz(sgy, sgz, rate, bs, header_detection=case['mode'])
        ideal = codec.ideal_volume(grid, rate, 'constant')
        with open(sgz, 'rb') as f:
            hdr = f.read(8192)
        H = sgzfile.parse_fields(hdr, par.G['fields'])
        out['words'] = {k: H[k] for k in ('n_ilines', 'n_xlines', 'min_iline', 'min_xline', 'iline_interval', 'xline_interval', 'tracecount')}
        keys = sgzfile.trace_keys()
        with segyio.open(sgy, strict=False) as s:
            truth = [{k: int(s.header[i][k]) for k in keys} for i in range(len(cells))]
        bad = {}
        # what the default detection owes (C04): everything if every word is constant or differs between first and last trace and no two
        # differing words coincide on both; otherwise only the inline word (the population mask), provided no earlier word shadows it
        owed = list(keys)
        if case['mode'] == 'heuristic':
            first, last = truth[0], truth[-1]
            var = [k for k in keys if first[k] != last[k]]
            pre = all(first[k] != last[k] or all(tr[k] == first[k] for tr in truth) for k in keys) and \
                len({(first[k], last[k]) for k in var}) == len(var)
            if not pre:
                owed = [189] if 189 in var and not any(k < 189 and (first[k], last[k]) == (first[189], last[189]) for k in var) else []
        out['owed_all'] = len(owed) == len(keys)

        def note(name, ok, detail=None):
            if not ok and name not in bad:
                bad[name] = detail
        with env.quiet():
            with SgzReader(sgz) as r:
                note('axes', np.array_equal(r.ilines, il0 + ils * np.arange(ni)) and np.array_equal(r.xlines, xl0 + xls * np.arange(nx)),
                     {'il': np.asarray(r.ilines).tolist(), 'xl': np.asarray(r.xlines).tolist()})
                note('tracecount', r.tracecount == len(cells), int(r.tracecount))
                note('structured', r.structured is False or r.structured == False, bool(r.structured))          # noqa: E712
                for t, (i, x) in enumerate(cells):
                    try:
                        tr = r.get_trace(t)
                        note('trace', codec.same_bits(tr, ideal[i, x, :]), {'ordinal': t})
                        h = r.gen_trace_header(t)
                        note('header', all(int(h[segyio.TraceField(k)]) == truth[t][k] for k in owed), {'ordinal': t})
                    except BaseException as e:
                        if isinstance(e, (KeyboardInterrupt, SystemExit, MemoryError)):
                            raise
                        note('trace', False, {'ordinal': t, 'exc': f'{type(e).__name__}: {e}'})
                try:
                    note('trace-beyond', False, {'returned': np.asarray(r.get_trace(len(cells))).shape})
                except IndexError:
                    pass
                note('volume', codec.same_bits(r.read_volume(), ideal))
                for i in range(ni):
                    note('inline', codec.same_bits(r.read_inline(i), ideal[i]), {'i': i})
                for x in range(nx):
                    note('crossline', codec.same_bits(r.read_crossline(x), ideal[:, x]), {'x': x})
                for z in (0, case['nz'] // 2, case['nz'] - 1):
                    note('zslice', codec.same_bits(r.read_zslice(z), ideal[:, :, z]), {'z': z})
                note('subvolume', codec.same_bits(r.read_subvolume(0, ni - 1, 1, nx, 1, case['nz']), ideal[0:ni - 1, 1:nx, 1:]))
                for cd in range(-nx + 1, ni):
                    exp = np.array([ideal[k + max(cd, 0), k - min(cd, 0)] for k in range(min(ni - max(cd, 0), nx + min(cd, 0)))])
                    note('diagonal', codec.same_bits(r.read_correlated_diagonal(cd), exp), {'cd': cd})
                for ad in range(0, ni + nx - 1):
                    lo = max(0, ad - nx + 1)
                    exp = np.array([ideal[i, ad - i] for i in range(lo, min(ni, ad + 1))])
                    note('diagonal', codec.same_bits(r.read_anticorrelated_diagonal(ad), exp), {'ad': ad})
                g = np.zeros((ni, nx), dtype=np.int64)
                gx = np.zeros((ni, nx), dtype=np.int64)
                for (i, x) in cells:
                    g[i, x] = il0 + i * ils
                    gx[i, x] = xl0 + x * xls
                note('tracefield-grid', np.array_equal(np.asarray(r.get_tracefield_values(189)), g) and
                     (193 not in owed or np.array_equal(np.asarray(r.get_tracefield_values(193)), gx)), np.asarray(r.get_tracefield_values(189)).tolist())
                out['il_grid'] = np.asarray(r.get_tracefield_values(189)).astype(np.int64).tolist()
        out['bad'] = bad
    except BaseException as e:
        if isinstance(e, (KeyboardInterrupt, SystemExit, MemoryError)):
            raise
        out['error'] = f'{type(e).__name__}: {e}'
    finally:
        for p in (sgy, sgz):
            if p and os.path.exists(p):
                os.remove(p)
    return out


def plan(run):
    quick = run.tier == 'quick'
    grids = [(2, 2), (2, 3), (3, 2), (3, 3), (2, 4), (4, 2), (3, 4), (4, 3)]
    out = tlc.oracle('Gen_Ingest', {'items': [{'op': 'subsets', 'ni': a, 'nx': b} for a, b in grids]}, key='items')
    run.add_tlc({'distinct': 0, 'generated': out['_tlc']['generated'], 'wall_s': out['_tlc']['wall_s']}, 'Gen_Ingest(subsets)')
    rng = np.random.default_rng(run.seed)
    cases = []
    total = 0
    for (a, b), o in zip(grids, out['items']):
        recs = o['subsets']
        subs = [x['cells'] for x in recs]
        total += len(subs)
        # always: the subsets segyio's own inference would take for a regular cube (equal trace count per leading inline ...)
        risky = [k for k, x in enumerate(recs) if x['confusable']]
        if quick and len(risky) > 120:
            ends = [k for k in risky if recs[k]['ends']]
            risky = sorted(set(ends) | set(rng.choice(risky, size=120, replace=False).tolist()))
        rest = [k for k in range(len(subs)) if k not in set(risky)]
        if quick and len(rest) > 40:
            rest = sorted(rng.choice(rest, size=40, replace=False).tolist())
        idx = sorted(set(risky) | set(rest))
        run.extra['segyio_confusable_subsets'] = run.extra.get('segyio_confusable_subsets', 0) + len(risky)
        for k in idx:
            il0 = (-3, 1, 100)[k % 3]
            ils = (1, 2, 3)[(k // 3) % 3]
            while any(il0 + i * ils == 0 for i in range(a)):
                il0 += 1
            cases.append({'grid': [a, b], 'cells': subs[k], 'axes': [il0, ils, (-7, 0, 5)[(k // 2) % 3], (3, 1, 2)[(k // 5) % 3]],
                          'nz': (6, 9, 70)[k % 3], 'mode': MODES[k % 3], 'setting': list(SETTINGS[(k // 4) % len(SETTINGS)]), 'zero_inline': False})
    run.extra['subsets_enumerated'] = total
    # bigger grids: several blocks along the inline axis, holes at corners and in the middle
    for k, (g, holes) in enumerate((((9, 6), [(0, 0), (8, 5), (4, 3), (4, 4)]), ((5, 17), [(0, 16), (2, 0), (2, 1), (4, 8)]),
                                    ((6, 5), [(i, j) for i in range(6) for j in range(5) if (i + j) % 3 == 1 and not (i == 0 and j == 4)]))):
        cells = [[i, x] for i in range(g[0]) for x in range(g[1]) if (i, x) not in holes]
        for mode in MODES:
            cases.append({'grid': list(g), 'cells': cells, 'axes': [20 + k, 2 + k, 7, 3 - k if k < 2 else 1], 'nz': 40, 'mode': mode,
                          'setting': list(SETTINGS[k % len(SETTINGS)]), 'zero_inline': False})
    # several plane sets under block shapes whose plane-set buffer is cut into bricks (not 4x4xN): a hole, or the unfilled tail of the last
    # plane set, at a slot that held a trace one plane set earlier
    for k, (g, holes, st) in enumerate((((17, 6), [(9, 3), (12, 0), (16, 5), (8, 1), (3, 3)], (32, (8, 8, 16))),
                                        ((11, 10), [(9, 3), (5, 9), (4, 0), (10, 9), (6, 6), (0, 2)], (16, (4, 8, -1))),
                                        ((19, 5), [(17, 2), (18, 4), (16, 0), (1, 1)], (32, (16, 16, 4))),
                                        ((10, 9), [(9, 8), (8, 0), (4, 4)], (16, (8, 8, -1))),
                                        ((8, 16), [(7, 15), (3, 3), (0, 8)], (16, None)))):       # grid arrays of exactly one 512-byte page
        cells = [[i, x] for i in range(g[0]) for x in range(g[1]) if (i, x) not in holes]
        cases.append({'grid': list(g), 'cells': cells, 'axes': [5 + k, 3, -4, 2], 'nz': (20, 40, 9, 33, 12)[k], 'mode': MODES[k % 3],
                      'setting': list(st), 'zero_inline': False})
    # known finding D22: an inline numbered 0 is indistinguishable from a hole
    cases.append({'grid': [3, 3], 'cells': [[0, 0], [0, 1], [1, 1], [1, 2], [2, 0], [2, 2]], 'axes': [0, 2, 5, 1], 'nz': 6, 'mode': 'heuristic',
                  'setting': [16, None], 'zero_inline': True})
    cases.append({'grid': [3, 3], 'cells': [[0, 0], [0, 1], [1, 1], [1, 2], [2, 0], [2, 2]], 'axes': [-2, 2, 5, 1], 'nz': 6, 'mode': 'thorough',
                  'setting': [16, None], 'zero_inline': True})
    return cases


def judge(run, case, r, ev):
    c = {k: case[k] for k in ('grid', 'cells', 'axes', 'nz', 'mode', 'setting', 'zero_inline')}
    run.case(c)
    if isinstance(r, par.Crash) or 'error' in r:
        run.fail('C08.inline-zero-is-hole' if case['zero_inline'] else 'C08.converts', c, str(r if isinstance(r, par.Crash) else r['error']), 'a readable file')
        return
    if case['zero_inline']:
        run.check(not r['bad'], 'C08.inline-zero-is-hole', c, r['bad'], 'as for any other inline number')
        return
    for name in ('axes', 'tracecount', 'structured', 'trace', 'header', 'trace-beyond', 'volume', 'inline', 'crossline', 'zslice', 'subvolume', 'diagonal',
                 'tracefield-grid'):
        run.check(name not in r['bad'], f'C08.{name}', c, r['bad'].get(name), 'the zero-filled grid / the i-th source trace')
    if ev is not None:
        H, w = ev['header'], r['words']
        exp = {'n_ilines': H['n_il'], 'n_xlines': H['n_xl'], 'min_iline': H['min_il'], 'min_xline': H['min_xl'], 'iline_interval': H['il_step'],
               'xline_interval': H['xl_step'], 'tracecount': H['tracecount']}
        placed_il = [[(case['axes'][0] + i * case['axes'][1]) if ev['placed'][i][x] else 0 for x in range(case['grid'][1])] for i in range(case['grid'][0])]
        if exp != w or placed_il != r.get('il_grid') or ev['ordinal'] != list(range(1, len(case['cells']) + 1)):
            run.drift(f'{c}: header words / placement differ from SgzIngest: {w} vs {exp}')
        else:
            run.traces_validated += 1


def run(run):
    from .. import session
    run.mc('MC_Ingest', f'MC_Ingest_irr_{run.tier}', timeout=3000)
    cases = plan(run)
    par.G['seed'] = run.seed
    par.G['fields'] = session.fields()
    items = []
    for c in cases:
        il0, ils, xl0, xls = c['axes']
        items.append({'op': 'irr', 'src': [[il0 + i * ils, xl0 + x * xls] for i, x in c['cells']]})
    out = tlc.oracle('Gen_Ingest', {'items': items}, key='items', timeout=1800)
    run.add_tlc({'distinct': 0, 'generated': out['_tlc']['generated'], 'wall_s': out['_tlc']['wall_s']}, 'Gen_Ingest(irr on real sources)')
    res = par.pmap(_worker, list(enumerate(cases)), chunksize=2)
    for case, r, ev in zip(cases, res, out['items']):
        judge(run, case, r, ev)


def replay(run, rep):
    from .. import session
    c = rep['case']
    par.G['seed'] = run.seed
    par.G['fields'] = session.fields()
    cases = plan(run)
    ci = [i for i, x in enumerate(cases) if all(x[k] == c[k] for k in ('grid', 'cells', 'axes', 'nz', 'mode', 'setting'))]
    k = ci[0] if ci else 0
    r = _worker((k, c))
    judge(run, c, r, None)
