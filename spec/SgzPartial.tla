----------------------------- MODULE SgzPartial -----------------------------
(***************************************************************************)
(* C18 as a statement about the BYTES on disk while a writer runs.         *)
(* The reader's only protection against a partial file is the length       *)
(* check of every range read (utils.check_range_length): a range inside    *)
(* the file is believed.  So a partial file is safe exactly when every     *)
(* byte inside the current file length already has its final value - or    *)
(* belongs to one of the fields the format patches in place at the end     *)
(* (array count / header-word table in 'thorough' mode, the hash), whose   *)
(* interim value the reader also accepts (the hash: known finding D23).    *)
(*                                                                         *)
(* The file is a sequence of cells: header fields, data blocks, footer     *)
(* arrays.  A cell on disk is "final", "interim" (a patchable field before *)
(* its patch), "zero" (a hole or a pre-sized region) or "old" (left over   *)
(* from a file that was at the path before).  Writers (conversion.py /     *)
(* conversion_utils.py run + writer thread, cropping.py, convert_to_adv)   *)
(* are sequences of the actions below; PBug re-creates designs that were   *)
(* seeded into the library and must be rejected.                           *)
(***************************************************************************)
EXTENDS Integers, Sequences, FiniteSets

CONSTANTS NBlk,        \* data blocks
          NArr,        \* footer arrays
          Patch,       \* TRUE: the header's count / table fields are patched after the data ('thorough' detection)
          OldLen,      \* cells of a file that was at the output path before (0 = fresh path)
          PBug         \* "none" | "presize" (truncate() to the full data length after the header)
                       \*        | "no_trunc" (opened without emptying the path) | "footer_first" (footer before the data, over a hole)
                       \*        | "late_len" (the data-length field written as 0 and patched after the data)

\* cells: 1 = header (fixed part), 2 = count/table field, 3 = hash field, 4 = data-length field, then blocks, then footers
HdrCells == 4
Total == HdrCells + NBlk + NArr
BlkCell(i) == HdrCells + i
ArrCell(j) == HdrCells + NBlk + j
Patchable == {3} \cup (IF Patch THEN {2} ELSE {}) \cup (IF PBug = "late_len" THEN {4} ELSE {})

VARIABLES disk,    \* sequence of cell states, Len(disk) = current file length in cells
          pc, k
pvars == <<disk, pc, k>>

Old(n) == [p \in 1..n |-> "old"]
Put(d, p, v) == IF p <= Len(d) THEN [d EXCEPT ![p] = v]
                ELSE d \o [q \in 1..(p - Len(d) - 1) |-> "zero"] \o <<v>>       \* a write beyond the end leaves a hole of zeros

Init == /\ disk = (IF PBug = "no_trunc" THEN Old(OldLen) ELSE <<>>)          \* open(path, 'wb') empties the path
        /\ pc = "header" /\ k = 1

Header ==    \* the header blocks in one write: patchable fields hold their interim values
    /\ pc = "header"
    /\ disk' = Put(Put(Put(Put(disk, 1, "final"), 2, IF 2 \in Patchable THEN "interim" ELSE "final"), 3, "interim"),
                   4, IF 4 \in Patchable THEN "interim" ELSE "final")
    /\ pc' = (IF PBug = "presize" THEN "presize" ELSE IF PBug = "footer_first" THEN "footer" ELSE "data")
    /\ k' = 1
Presize ==   \* truncate(header + data length): the data region exists, as zeros
    /\ pc = "presize"
    /\ disk' = (IF Len(disk) >= HdrCells + NBlk THEN disk ELSE disk \o [q \in 1..(HdrCells + NBlk - Len(disk)) |-> "zero"])
    /\ pc' = "data" /\ k' = 1
Block ==     \* the writer thread appends block k
    /\ pc = "data" /\ k <= NBlk
    /\ disk' = Put(disk, BlkCell(k), "final")
    /\ k' = k + 1 /\ pc' = "data"
DataDone ==
    /\ pc = "data" /\ k > NBlk
    /\ pc' = (IF PBug = "footer_first" THEN "patch" ELSE IF Patch THEN "prepatch" ELSE "footer") /\ k' = 1 /\ UNCHANGED disk
PrePatch ==         \* 'thorough' detection: the array count and the header-word table are patched in place BEFORE the arrays are written
    /\ pc = "prepatch"
    /\ disk' = [disk EXCEPT ![2] = "final"]
    /\ pc' = "footer" /\ UNCHANGED k
Footer ==
    /\ pc = "footer" /\ k <= NArr
    /\ disk' = Put(disk, ArrCell(k), "final")
    /\ k' = k + 1 /\ pc' = "footer"
FooterDone ==
    /\ pc = "footer" /\ k > NArr
    /\ pc' = (IF PBug = "footer_first" THEN "data" ELSE "patch") /\ k' = 1 /\ UNCHANGED disk
PatchFields ==      \* the in-place patches through a second handle, one field per step
    /\ pc = "patch"
    /\ \E p \in Patchable : disk[p] = "interim" /\ disk' = [disk EXCEPT ![p] = "final"]
    /\ UNCHANGED <<pc, k>>
Finish ==
    /\ pc = "patch" /\ \A p \in Patchable : disk[p] = "final"
    /\ pc' = "done" /\ UNCHANGED <<disk, k>>

PNext == Header \/ Presize \/ Block \/ DataDone \/ PrePatch \/ Footer \/ FooterDone \/ PatchFields \/ Finish
PSpec == Init /\ [][PNext]_pvars

(***************************************************************************)
(* What C18 needs of every reachable state (= every point at which the     *)
(* writing can stop, at cell granularity)                                  *)
(***************************************************************************)
InRangeIsFinal == \A p \in 1..Len(disk) : disk[p] = "final" \/ (p \in Patchable /\ disk[p] = "interim")
\* the interim value of a patchable field must itself make the reader refuse or answer as the complete file does: true for the
\* count / table fields (a partial footer is shorter than the file the interim header describes), NOT for the hash (D23), and not for a
\* data-length field (interim 0: the reader takes the footer offset from it and reads header words from the data section)
InterimHarmless == \A p \in 1..Len(disk) : disk[p] = "interim" => p \in {2, 3}
Complete == pc = "done" => (Len(disk) = Total /\ \A p \in 1..Total : disk[p] = "final")
=============================================================================
