CONSTANT DiskBlockBytes = 64
CONSTANT TBug = "none"
CONSTANT Tier = "thorough"
CONSTANT Part = "crop"
SPECIFICATION Spec
INVARIANT PCrop
INVARIANT PRefuse
INVARIANT PReblock
CHECK_DEADLOCK FALSE
