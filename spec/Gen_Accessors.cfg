CONSTANT ABug = "none"
SPECIFICATION Spec
