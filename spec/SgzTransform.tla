----------------------------- MODULE SgzTransform -----------------------------
(***************************************************************************)
(* Writers that start from an SGZ file and move compressed units without   *)
(* re-compressing them: the cropper (cropping.py) and the re-blocker to    *)
(* the z-slice layout (conversion.py convert_to_adv_sgz).  Both are        *)
(* transcribed as the byte-offset arithmetic the code performs; the        *)
(* result is a COPY MAP: for every unit slot of the new data section, the  *)
(* data-section offset of the source it was filled from (or Zero).  The    *)
(* properties compare it with what the format (SgzFormat) says about both  *)
(* files: slot s of the new file must hold the source unit with the        *)
(* coordinates the new header gives slot s (shifted by the crop origin).   *)
(***************************************************************************)
EXTENDS SgzFormat

CONSTANT TBug   \* "none" | design mutants: "floor_units" (clipped end counted with floor), "default_addr" (cropper addresses every layout
                \*   as 4x4xN), "plus_one" (re-blocker counts a partial block as residue div 4 + 1), "pad_mod" (partial count from the padded extent)

Zero == -1

(***************************************************************************)
(* Crop.  box = <<<<i0,i1>>, <<x0,x1>>, <<z0,z1>>>> by index, None = <<>>  *)
(***************************************************************************)
Rng(F, box, a) == IF box[a] = <<>> THEN <<0, F.n[a]>> ELSE box[a]
CropRefused(F, box) ==          \* cropping.py check_and_correct_bounds
    \/ \A a \in 1..3 : box[a] = <<>>
    \/ \E a \in 1..3 : Rng(F, box, a)[1] >= Rng(F, box, a)[2]
    \/ \E a \in 1..3 : Rng(F, box, a)[1] < 0 \/ Rng(F, box, a)[2] > F.n[a]
Aligned(F, box, a) ==           \* correct_bounds: outward to the blockshape, clipped to the axis
    LET r == Rng(F, box, a)
        b == F.b[a]
    IN  <<Max((r[1] \div b) * b, 0), Min(CeilDiv(r[2], b) * b, F.n[a])>>
CropF(F, box) == [F EXCEPT !.n = [a \in 1..3 |-> Aligned(F, box, a)[2] - Aligned(F, box, a)[1]],
                           !.ntr = (Aligned(F, box, 1)[2] - Aligned(F, box, 1)[1]) * (Aligned(F, box, 2)[2] - Aligned(F, box, 2)[1])]

\* write_cropped_file_by_indexes: whole disk blocks, i-x raster, each contiguous run along z in one read
CropCopy(F, box) ==
    LET A  == [a \in 1..3 |-> Aligned(F, box, a)]
        fb == [a \in 1..3 |-> A[a][1] \div F.b[a]]
        nb == [a \in 1..3 |-> IF TBug = "floor_units" THEN (A[a][2] \div F.b[a]) - fb[a] ELSE CeilDiv(A[a][2], F.b[a]) - fb[a]]
        upb == UnitsPerBlock(F)
        \* k-th block written (0-based): (i, x, z) in raster order of the new block grid
        srcBlock(k) == LET z == k % nb[3]
                           x == (k \div nb[3]) % nb[2]
                           i == k \div (nb[3] * nb[2])
                       IN  IF TBug = "default_addr"
                           THEN ((fb[1] + i) * (Pa(F, 2) \div 4) + (fb[2] + x)) * NBa(F, 3) + fb[3] + z
                           ELSE NBa(F, 3) * (NBa(F, 2) * (fb[1] + i) + (fb[2] + x)) + fb[3] + z
    IN  [s \in 0..(nb[1] * nb[2] * nb[3] * upb - 1) |-> srcBlock(s \div upb) * DiskBlockBytes + (s % upb) * F.ub]

\* every unit of the cropped file that holds a real voxel is the source unit at the same place in the source cube
CropOK(F, box) ==
    LET G == CropF(F, box)
        C == CropCopy(F, box)
        off == [a \in 1..3 |-> Aligned(F, box, a)[1] \div UE(F, a)]
    IN  /\ WellFormed(G)
        /\ Cardinality(DOMAIN C) * F.ub = DataBytes(G)
        /\ \A s \in DOMAIN C : 0 <= C[s] /\ C[s] + F.ub <= DataBytes(F)
        /\ \A u \in Units(G) : RealUnit(G, u) =>
              LET s == UnitOff(G, u) \div F.ub
              IN  s \in DOMAIN C /\ UnitAtOff(F, C[s]) = <<u[1] + off[1], u[2] + off[2], u[3] + off[3]>>

(***************************************************************************)
(* Re-block: source (4, 4, Bz) -> target (T, T, 4) with (T/4)^2 = Bz/4     *)
(* units per block (T = 64, Bz = 1024 in the code; smaller in model runs). *)
(***************************************************************************)
ReblockSupported(F, T) == F.dim = 3 /\ F.b[1] = 4 /\ F.b[2] = 4 /\ (T \div 4) * (T \div 4) = F.b[3] \div 4
ReblockF(F, T) == [F EXCEPT !.b = <<T, T, 4>>]
ReblockCopy(F, T) ==
    LET K == T \div 4
        G == ReblockF(F, T)
        chunk == ChunkBytes(F)                           \* all z-blocks of one 4x4 trace column
        rowBytes == NUa(F, 2) * chunk                    \* 4 * inline_bytes: one row of units along the crossline axis
        cnt(n, k) == IF (k + 1) * T > n
                     THEN (IF TBug = "plus_one" THEN ((n % T) \div 4) + 1
                           ELSE IF TBug = "pad_mod" THEN (Pad(n, 4) % T) \div 4
                           ELSE ((n % T) + 3) \div 4)
                     ELSE K
        nbz == Pad(F.n[3], 4) \div 4
        nbx == Pad(F.n[2], T) \div T
        slot(s) == LET blk == s \div (K * K)
                       u == s % (K * K)
                       z == blk % nbz
                       x == (blk \div nbz) % nbx
                       i == blk \div (nbz * nbx)
                       n == u \div K
                       m == u % K
                   IN  IF n < cnt(F.n[1], i) /\ m < cnt(F.n[2], x)
                       THEN x * chunk * K + (n + i * K) * rowBytes + m * chunk + z * F.ub
                       ELSE Zero
    IN  [s \in 0..((DataBytes(G) \div F.ub) - 1) |-> slot(s)]

ReblockOK(F, T) ==
    LET G == ReblockF(F, T)
        C == ReblockCopy(F, T)
    IN  /\ WellFormed(G)
        /\ \A s \in DOMAIN C : C[s] # Zero => (0 <= C[s] /\ C[s] + F.ub <= DataBytes(F))       \* nothing is read outside the source data section
        /\ \A u \in Units(G) : RealUnit(G, u) =>
              LET s == UnitOff(G, u) \div F.ub
              IN  C[s] # Zero /\ UnitAtOff(F, C[s]) = u
=============================================================================
