----------------------------- MODULE MC_Geometry -----------------------------
(* C05 exhaustive at word width W: every axis triple (start, step # 0, count >= 2) whose values fit the word, on both line axes
   (the inline triple is enumerated in full, the crossline triple over a boundary family), both sides of both version gates,
   whole-ms and fractional-ms intervals, regular and irregular trace counts; and every aligned crop box of the result. *)
EXTENDS SgzGeometry, TLC
CONSTANT MaxCount
VARIABLES st, sp, cn, xa, gate, stage
gvars == <<st, sp, cn, xa, gate, stage>>
Steps == (Lo..Hi) \ {0}
XAxes == {[start |-> Lo, step |-> 1, count |-> 2], [start |-> Hi, step |-> -1, count |-> 3], [start |-> -1, step |-> Hi \div 2, count |-> 2],
          [start |-> 0, step |-> 3, count |-> 4], [start |-> Hi - 4, step |-> 2, count |-> 3]}
Gates == {<<p16, p21, dz, irr>> : p16 \in BOOLEAN, p21 \in BOOLEAN, dz \in {1, 125, 999, 1000, 1001, 4000, 65535}, irr \in BOOLEAN} 
Init == st \in Lo..Hi /\ sp = 0 /\ cn = 0 /\ xa \in XAxes /\ gate \in Gates /\ stage = 0
Next == \/ stage = 0 /\ sp' \in Steps /\ stage' = 1 /\ UNCHANGED <<st, cn, xa, gate>>
        \/ stage = 1 /\ cn' \in 2..MaxCount /\ stage' = 2 /\ UNCHANGED <<st, sp, xa, gate>>
Spec == Init /\ [][Next]_gvars
IlAxis == [start |-> st, step |-> sp, count |-> cn]
G == [il |-> IlAxis, xl |-> xa, z0 |-> (IF gate[4] THEN Lo ELSE 8), dz |-> gate[3], nz |-> 5,
      ntr |-> IF gate[4] /\ gate[2] THEN cn * xa.count - 1 ELSE cn * xa.count, post016 |-> gate[1] \/ gate[2], post021 |-> gate[2], dim |-> 3]
Ready == stage = 2 /\ AxisOK(IlAxis)
PPreserved == Ready => Preserved(G)
PCrop == (Ready /\ G.ntr = cn * xa.count) =>
            \A i0 \in 0..(cn - 1) : \A z0 \in {0, 4} :
                CropPreserves([G EXCEPT !.nz = 8], [i0 |-> i0, i1 |-> cn, x0 |-> 1, x1 |-> xa.count, z0 |-> z0, z1 |-> 8])
PCrop2 == (Ready /\ G.ntr = cn * xa.count /\ (gate[1] \/ gate[2])) => \A z1 \in {0, 4} : \A z2 \in {0, 4, 8} : Crop2Preserves([G EXCEPT !.nz = 16], z1, z2)
=============================================================================
