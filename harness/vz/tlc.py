"""Running TLC: exhaustive model checking, oracle/generator evaluation, trace validation, simulation."""
import json
import os
import re
import subprocess
import time
from concurrent.futures import ThreadPoolExecutor

from . import env

JAR = '/opt/veriftools/tla/tla2tools.jar:/opt/veriftools/tla/CommunityModules-deps.jar'
NONE = -1000000     # SgzApi!None


class TlcError(RuntimeError):
    pass


def _java(small):
    if small:
        return ['java', '-XX:+UseSerialGC', '-XX:TieredStopAtLevel=1', '-Xss16m', '-Xms128m', '-Xmx3g', '-Xmn96m', '-cp', JAR, 'tlc2.TLC']
    return ['java', '-XX:+UseParallelGC', '-Xss16m', '-Xmx12g', '-cp', JAR, 'tlc2.TLC']


_counter = [0]


def run(spec, cfg=None, workers=1, timeout=900, extra_env=None, args=(), small=None, check_ok=True):
    """Run TLC on spec (module name in /verif/spec).  Returns a dict with the parsed statistics."""
    _counter[0] += 1
    meta = env.subdir(f'tlc-{os.getpid()}-{_counter[0]}')
    cmd = _java(workers == 1 if small is None else small) + [
        '-workers', str(workers), '-metadir', meta, '-noGenerateSpecTE',
        '-config', (cfg or spec) + ('' if (cfg or spec).endswith('.cfg') else '.cfg')] + list(args) + [spec + '.tla']
    e = dict(os.environ)
    e.update(extra_env or {})
    t0 = time.time()
    try:
        p = subprocess.run(cmd, cwd=env.SPEC, env=e, stdout=subprocess.PIPE, stderr=subprocess.STDOUT,
                           timeout=timeout, text=True)
    except subprocess.TimeoutExpired as ex:
        raise TlcError(f'TLC timeout after {timeout}s: {spec}') from ex
    out = p.stdout
    res = parse_output(out)
    res['wall_s'] = time.time() - t0
    res['cmd'] = ' '.join(cmd[:1] + ['...tlc2.TLC'] + cmd[cmd.index('tlc2.TLC') + 1:])
    res['returncode'] = p.returncode
    res['output'] = out
    if check_ok and not res['ok']:
        raise TlcError(f'TLC failed on {spec} ({cfg}):\n' + out[-4000:])
    return res


def parse_output(out):
    res = {'ok': False, 'generated': 0, 'distinct': 0, 'depth': 0, 'violated': None, 'coverage': {}}
    m = re.search(r'(\d+) states generated, (\d+) distinct states found, (\d+) states left', out)
    if m:
        res['generated'], res['distinct'] = int(m.group(1)), int(m.group(2))
    m = re.search(r'depth of the complete state graph search is (\d+)', out)
    if m:
        res['depth'] = int(m.group(1))
    if 'Model checking completed. No error has been found.' in out:
        res['ok'] = True
    m = re.search(r'Error: Invariant (\S+) is violated', out)
    if m:
        res['violated'] = m.group(1)
    m = re.search(r'Error: Action property (\S+) is violated', out)
    if m:
        res['violated'] = m.group(1)
    if 'Temporal properties were violated' in out:
        res['violated'] = res['violated'] or 'temporal'
    if 'Deadlock reached' in out:
        res['violated'] = 'deadlock'
    # per-action coverage lines: "<Action line 12, col 1 to line 14, col 20 of module M>: 12:34"
    for m in re.finditer(r'<(\w+) line \d+, col \d+ to line \d+, col \d+ of module (\w+)>: (\d+):(\d+)', out):
        res['coverage'][m.group(1)] = res['coverage'].get(m.group(1), 0) + int(m.group(4))
    return res


def oracle(spec, payload, cfg=None, shards=16, timeout=600, key='calls', constants_env=None, per_shard=200):
    """Evaluate a Gen_* spec on payload (a dict).  payload[key] (a list) is split over `shards` JVMs;
    the other entries are passed to every shard.  Returns the merged output with out[key] in order."""
    items = payload[key]
    n = max(1, min(max(shards, 512), (len(items) + per_shard - 1) // per_shard))       # more shards than JVMs at a time: they queue on the pool
    size = (len(items) + n - 1) // n if items else 0
    d = env.subdir(f'oracle-{os.getpid()}-{_counter[0]}-{int(time.time()*1000) % 100000}')
    jobs = []
    for s in range(n):
        part = dict(payload)
        part[key] = items[s * size:(s + 1) * size]
        fin, fout = os.path.join(d, f'in{s}.json'), os.path.join(d, f'out{s}.json')
        with open(fin, 'w') as f:
            json.dump(part, f)
        jobs.append((fin, fout))

    def one(job):
        e = {'VZ_IN': job[0], 'VZ_OUT': job[1]}
        e.update(constants_env or {})
        r = run(spec, cfg, workers=1, timeout=timeout, extra_env=e)
        with open(job[1]) as f:
            return json.load(f), r

    with ThreadPoolExecutor(max_workers=16) as ex:
        outs = list(ex.map(one, jobs))
    merged = dict(outs[0][0])
    merged[key] = [x for o, _ in outs for x in o[key]]
    merged['_tlc'] = {'runs': len(outs), 'wall_s': max(r['wall_s'] for _, r in outs),
                      'generated': sum(r['generated'] for _, r in outs)}
    return merged
