"""C18 partial files: every prefix of the recorded write sequence of a conversion (cuts at and inside every write)
and every length class of the finished file, x every read call: the partial file raises or answers exactly like the
complete file."""
import os

import numpy as np
import segyio

from .. import codec, env, inputs, par, readcalls, session, sgzfile, writers, wseam
from ..backends import CountingFile

FINISH = dict(
    level='model_checking',
    rule='write sequences are recorded at the open() seam of the real writers (NumPy, SEG-Y heuristic/thorough, 2-D); partial '
         'file = first k writes (+ a cut inside write k+1) re-applied, or the finished file truncated at every boundary class '
         '(TLC-emitted offsets: header, every block, every footer array, +-1, interior); every read call on every partial file; '
         'non-trivial = distinct (route, cut, call) where the partial file is shorter than the complete one',
    assumptions=['an exception of any class at open or at the call counts as "raises"'],
    trusted=['zfpy', 'numpy', 'segyio', 'TLC'])

N = readcalls.NONE


def sources(run):
    """(label, writer thunk(path))"""
    d = env.subdir('c18src')
    out = []
    cube = inputs.cube((6, 5, 70), run.seed + 3)
    sgy = os.path.join(d, 'r.sgy')
    inputs.write_segy(sgy, cube, np.arange(6) + 10, np.arange(5) * 2 + 20, np.arange(70) * 4.0)
    out.append(('numpy r16 (4,4,-1)', lambda p: writers.numpy_to_sgz(p, cube, 16, (4, 4, -1), ilines=np.arange(6) + 10,
                                                                   xlines=np.arange(5) * 2 + 20, samples=np.arange(70) * 4.0)))
    out.append(('segy heuristic r32', lambda p: writers.segy_to_sgz(sgy, p, 32, (4, 4, -1))))
    # the other two loader families: z-slice layout (4 samples per block) and the general layout
    out.append(('numpy r32 (16,16,4)', lambda p: writers.numpy_to_sgz(p, cube, 32, (16, 16, 4))))
    out.append(('segy heuristic r16 (8,8,32)', lambda p: writers.segy_to_sgz(sgy, p, 16, (8, 8, 32))))
    out.append(('segy thorough r32', lambda p: writers.segy_to_sgz(sgy, p, 32, (4, 4, -1), header_detection='thorough')))
    if run.tier == 'thorough':
        out.append(('segy exhaustive r16 (8,8,32)', lambda p: writers.segy_to_sgz(sgy, p, 16, (8, 8, 32), header_detection='exhaustive')))
        out.append(('segy strip r32', lambda p: writers.segy_to_sgz(sgy, p, 32, (4, 4, -1), header_detection='strip')))
    # the other two writers of SGZ files: the cropper and the re-blocker (their output can be cut short just the same)
    from seismic_zfp.cropping import SgzCropper
    from seismic_zfp.conversion import SgzConverter
    csrc = os.path.join(d, 'cropsrc.sgz')
    writers.numpy_to_sgz(csrc, inputs.cube((9, 10, 70), run.seed + 5), 16, (4, 4, -1), ilines=np.arange(9) + 10, xlines=np.arange(10) * 2 + 20,
                         samples=np.arange(70) * 4.0, trace_headers={segyio.TraceField.CDP_X: (np.arange(90).reshape(9, 10) * 3 + 7).astype(np.int32)})

    def do_crop(p):
        with env.quiet():
            with SgzCropper(csrc) as c:
                c.write_cropped_file_by_indexes(p, (4, 9), (0, 8), None)
    out.append(('crop of numpy r16 (4,4,-1)', do_crop))
    rsrc = os.path.join(d, 'reblocksrc.sgz')
    writers.numpy_to_sgz(rsrc, inputs.cube((5, 70, 9), run.seed + 6), 2, (4, 4, -1))

    def do_reblock(p):
        with env.quiet():
            with SgzConverter(rsrc) as c:
                c.convert_to_adv_sgz(p)
    out.append(('re-block of numpy r2', do_reblock))
    # a survey with holes (the trace count is not the grid size; the stored headers are filtered by the populated-position mask)
    sgy3 = os.path.join(d, 'holes.sgy')
    cells = [(i, x) for i in range(5) for x in range(6) if (i, x) not in ((1, 2), (3, 0), (3, 5))]
    hdrs3 = [{segyio.TraceField.INLINE_3D: 10 + i, segyio.TraceField.CROSSLINE_3D: 20 + 2 * x, segyio.TraceField.CDP_X: 1000 + 25 * i,
              segyio.TraceField.CDP_Y: 5000 - 25 * x, segyio.TraceField.CDP: 7 * t + 3} for t, (i, x) in enumerate(cells)]
    inputs.write_segy_traces(sgy3, inputs.cube((len(cells), 40), run.seed + 8), np.arange(40) * 4.0, hdrs3)
    out.append(('segy with holes r16 (4,4,-1)', lambda p: writers.segy_to_sgz(sgy3, p, 16, (4, 4, -1))))
    sgy2 = os.path.join(d, 'l.sgy')
    data = inputs.cube((9, 70), run.seed + 4)
    hdrs = [{segyio.TraceField.CDP_X: 100 + t, segyio.TraceField.CDP: t + 1} for t in range(9)]
    inputs.write_segy_traces(sgy2, data, np.arange(70) * 4.0, hdrs)
    out.append(('segy 2d r8 (1,4,-1)', lambda p: writers.segy_to_sgz(sgy2, p, 8, (1, 4, -1))))
    return out


def calls_for(F, tf_keys=()):
    """tf_keys: header words asked one by one through get_tracefield_values (an aggregate over all stored words would raise as
    soon as one array lies beyond the cut and hide a wrong answer for another)"""
    ni, nx, nz = F['n']
    tf = [('tracefield1', [int(k)]) for k in tf_keys] + [('variant_headers', [])]      # (all stored arrays at once, on a real local file)
    if F['dim'] == 2:
        return [('get_trace', [0, N, N]), ('get_trace', [nx - 1, N, N]), ('read_subplane', [0, nx, 0, nz]), ('gen_trace_header', [0]),
                ('gen_trace_header', [nx - 1]), ('meta', [])] + tf
    tc = readcalls.tracecount(F)
    holes = [('get_trace', [list(F['mask']).index(0) + 1, N, N]), ('gen_trace_header', [list(F['mask']).index(0) + 1])] if (F.get('mask') and 0 in F['mask']) else []
    return tf + [('read_inline', [0]), ('read_inline', [ni - 1]), ('read_crossline', [nx - 1]), ('read_zslice', [nz - 1]), ('read_zslice', [0]),
            ('read_volume', []), ('read_subvolume', [0, 2, 0, 2, 0, 5]), ('get_trace', [0, N, N]), ('get_trace', [tc - 1, N, N]),
            ('read_correlated_diagonal', [0, N, N, N, N]), ('gen_trace_header', [0]), ('gen_trace_header', [tc - 1]),
            ('tracefield', []), ('meta', []), ('tools_cube', [])] + holes


def meta_of(r):
    m = {'n': (int(r.n_ilines), int(r.n_xlines), int(r.n_samples)) if r.is_3d else int(r.n_samples), 'tracecount': int(r.tracecount),
         'hash': r.get_source_data_hash(), 'zs': np.asarray(r.zslices).tolist(), 'structured': bool(r.structured),
         'bin': bytes(r.file_binary_header).hex(), 'text': bytes(r.file_text_header).hex()[:64]}
    if r.is_3d:
        m['il'] = np.asarray(r.ilines).tolist()
        m['xl'] = np.asarray(r.xlines).tolist()
    return m


def outcome(data, op, a, preload=False, reader=None):
    """run one call on a file image (on `reader` if given: a reader that has already served other calls); -> comparable outcome"""
    from seismic_zfp.read import SgzReader
    tmp = None
    if reader is not None:
        return _call(reader, op, a)
    if op in ('variant_headers', 'gen_trace_header', 'tools_cube'):         # a path on disk: the reader's local-file code, not a file-like object
        tmp = os.path.join(env.subdir(f'c18p-{os.getpid()}'), 'partial.sgz')
        with open(tmp, 'wb') as f:
            f.write(data)
    if op == 'tools_cube':      # the module-level convenience function (opens, reads everything, closes)
        import seismic_zfp.tools
        try:
            with env.quiet():
                v = seismic_zfp.tools.cube(tmp)
            return ('value', codec.bits(np.asarray(v, dtype=np.float32)).tolist())
        except BaseException as e:
            if isinstance(e, (KeyboardInterrupt, SystemExit, MemoryError)):
                raise
            return ('raise', type(e).__name__)
    try:
        with env.quiet():
            r = SgzReader(tmp if tmp else CountingFile(data, name='partial.sgz'), preload=preload)
    except BaseException as e:
        if isinstance(e, (KeyboardInterrupt, SystemExit, MemoryError)):
            raise
        return ('raise', 'open:' + type(e).__name__)
    if tmp is None:
        return _call(r, op, a)
    try:
        return _call(r, op, a)
    finally:
        try:
            with env.quiet():
                r.close()
        except Exception:
            pass


def _call(r, op, a):
    try:
        with env.quiet():
            if op == 'meta':
                return ('meta', meta_of(r))
            if op == 'tracefield':
                return ('value', [np.asarray(r.get_tracefield_values(k)).tolist() for k in r.stored_header_keys])
            if op == 'tracefield1':
                return ('value', np.asarray(r.get_tracefield_values(a[0])).tolist())
            if op == 'variant_headers':
                r.read_variant_headers()
                return ('value', {int(k): np.asarray(v).tolist() for k, v in r.variant_headers.items()})
            out = readcalls.invoke(r, op, a)
    except BaseException as e:
        if isinstance(e, (KeyboardInterrupt, SystemExit, MemoryError)):
            raise
        return ('raise', type(e).__name__)
    if out[0] == 'raise':
        return ('raise', out[1])
    if out[0] == 'header':
        return ('header', out[1])
    return ('value', codec.bits(np.asarray(out[1], dtype=np.float32)).tolist())


def _sweep_worker(item):
    """a salvage loop: ONE reader on the partial file, every call in turn, then every call again (what failed the first time must not
    come back as data the second time)"""
    from seismic_zfp.read import SgzReader
    si, kind, cut = item
    S = par.G['sources'][si]
    data = S['partials'][(kind, cut)]
    try:
        with env.quiet():
            r = SgzReader(CountingFile(data, name='partial.sgz'))
    except BaseException as e:
        if isinstance(e, (KeyboardInterrupt, SystemExit, MemoryError)):
            raise
        return []
    out = []
    for sweep in (1, 2):
        for ci, (op, a) in enumerate(S['calls']):
            if op in ('variant_headers', 'meta', 'tracefield', 'tools_cube'):
                continue
            got = _call(r, op, a)
            out.append((sweep, ci, got))
            if got[0] == 'raise':       # ... and what has just been refused is asked again at once (a retry)
                out.append((f'{sweep} retry', ci, _call(r, op, a)))
    return out


def _worker(item):
    si, kind, cut, ci = item
    S = par.G['sources'][si]
    data = S['partials'][(kind, cut)]
    op, a = S['calls'][ci]
    got = outcome(data, op, a, preload=(kind == 'trunc-preload'))
    return got


def cuts_for(S, rng, quick):
    """partial images: {(kind, cut label): bytes}"""
    writes, full, lay = S['writes'], S['full'], S['layout']
    P = {}
    # (1) prefixes of the write sequence, cuts at every write boundary and inside the write
    idx = list(range(len(writes) + 1))
    if quick and len(idx) > 24:
        idx = sorted(set(idx[:6] + idx[-10:] + rng.choice(len(idx), size=8, replace=False).tolist()))
    for k in idx:
        P[('prefix', f'{k}')] = wseam.apply_prefix(writes, k)
        if k < len(writes):
            n = writes[k]['len']
            for c in sorted({1, n // 2, n - 1} - {0, n}):
                if quick and c not in (n // 2,) and 6 < k < len(writes) - 6:
                    continue
                P[('prefix', f'{k}+{c}')] = wseam.apply_prefix(writes, k, c)
    # (2) truncations of the finished file at every boundary class (offsets emitted by TLC from SgzFormat)
    hb = 8192
    L = len(full)
    marks = {0, 1, 100, 4095, 4096, 4097, hb - 1, hb, hb + 1, L - 1, lay['min_file_len'], lay['min_file_len'] - 1}
    for b in range(lay['data_blocks'] + 1):
        marks |= {hb + 4096 * b - 1, hb + 4096 * b, hb + 4096 * b + 1, hb + 4096 * b + 2048}
    for o in lay['array_offsets']:
        marks |= {o - 1, o, o + 1, o + lay['entry_bytes'] - 1, o + lay['entry_bytes'], o + lay['entry_bytes'] + 1, o + lay['entry_bytes'] // 2}
    marks |= set(rng.integers(hb, L, size=6 if quick else 40).tolist())
    marks = sorted(m for m in marks if 0 <= m < L)
    if quick and len(marks) > 60:
        marks = sorted(set(marks[:12] + marks[-30:] + rng.choice(marks, size=18, replace=False).tolist()))
    for m in marks:
        P[('trunc', str(m))] = full[:m]
    for m in marks[::5]:
        P[('trunc-preload', str(m))] = full[:m]
    return P


def validate_write_trace(run, label, writes, layout, initial):
    """code -> spec: the recorded writes, mapped to cells (header fields, data blocks, footer arrays) by the TLC-emitted layout, must be a
    behaviour of SgzPartial (Trace_Partial): every byte inside the file is final, or an interim value of a patchable field, at every stop"""
    import json
    import re
    from .. import tlc
    hb = 8192
    nblk = int(layout['data_blocks'])
    offs = [int(o) for o in layout['array_offsets']]
    data_end = hb + nblk * 4096
    flen = -(-len(initial or b'') // 4096)          # file length in cells of what the path held after the open
    ev, patched2 = [], False

    def cells_len(c):
        nonlocal flen
        flen = max(flen, c)
        return flen
    for w in writes:
        off, n = w['off'], w['len']
        if w.get('truncate') is not None:
            ev.append({'a': 'Presize' if w['truncate'] == data_end and w.get('shrink') is None else 'Unknown', 'len': cells_len(4 + nblk), 'cell': 0})
        elif off == 0 and n == hb:
            ev.append({'a': 'Header', 'len': cells_len(4), 'cell': 0})
        elif off < hb:
            cell = 3 if off == 960 else 4 if off == 56 else 2 if off in (64, 980) else 0
            if cell == 2 and patched2:
                continue            # count and table are one patchable field of the model
            patched2 = patched2 or cell == 2
            ev.append({'a': 'Patch' if cell else 'Unknown', 'len': flen, 'cell': cell})
        elif off < data_end:
            first, last = (off - hb) // 4096, (off + n - 1 - hb) // 4096
            for i in range(first, last + 1):
                ev.append({'a': 'Block', 'len': cells_len(4 + i + 1), 'cell': 0})
        else:
            j = max([k for k, o in enumerate(offs) if o <= off], default=None)
            ev.append({'a': 'Footer' if j is not None and offs[j] == off else 'Unknown', 'len': cells_len(4 + nblk + (j + 1 if j is not None else 0)), 'cell': 0})
    d = env.subdir('c18t')
    name = f'_partial_{os.getpid()}_{abs(hash(label)) % 100000}'
    fin = os.path.join(d, name + '.json')
    with open(fin, 'w') as f:
        json.dump({'trace': ev}, f)
    cfg = os.path.join(env.SPEC, name + '.cfg')
    with open(cfg, 'w') as f:
        f.write(f'CONSTANT NBlk = {nblk}\nCONSTANT NArr = {len(offs)}\nCONSTANT Patch = {"TRUE" if patched2 else "FALSE"}\nCONSTANT OldLen = 0\n'
                'CONSTANT PBug = "none"\nSPECIFICATION TSpec\nINVARIANT Safe\nINVARIANT End\nCHECK_DEADLOCK FALSE\n')
    try:
        res = tlc.run('Trace_Partial', name, workers=1, timeout=300, extra_env={'VZ_IN': fin}, check_ok=False, small=True)
    finally:
        os.remove(cfg)
    run.add_tlc(res, f'Trace_Partial[{label}]')
    m = re.search(r'<<"END", (\d+), (\d+), "(\w+)">>', res['output'])
    if res.get('violated') or not m or m.group(1) != m.group(2):
        at = m.group(1) if m else '?'
        nxt = ev[int(at)] if m and int(at) < len(ev) else None
        run.drift(f'{label}: the recorded write sequence is not a behaviour of SgzPartial (consumed {at} of {len(ev)} events; next {nxt}; violated {res.get("violated")})')
    else:
        run.traces_validated += 1


def run(run):
    rng = np.random.default_rng(run.seed)
    quick = run.tier == 'quick'
    run.mc('MC_Reader', 'MC_Reader_C18_quick' if quick else 'MC_Reader_C18_thorough')
    run.mc('MC_Partial', 'MC_Partial_a')
    run.mc('MC_Partial', 'MC_Partial_b')
    d = env.subdir('c18')
    S_all, items = [], []
    for si, (label, thunk) in enumerate(sources(run)):
        p = os.path.join(d, f'o{si}.sgz')
        with wseam.recording(p) as rec:
            thunk(p)
        writes = rec.writes()
        with open(p, 'rb') as f:
            full = f.read()
        fc = session.load_files([session.FileCase(p, label=label)], run)[0]
        # the recorded writes, re-applied, are the file (the seam sees every write)
        run.check(wseam.apply_prefix(writes, len(writes)) == full, 'C18.seam-complete', {'route': label}, len(writes), 'writes reproduce the file')
        # code -> spec: write offsets are the ones the format derives
        hdr_first = writes[0]['off'] == 0 and writes[0]['len'] == 8192
        run.check(hdr_first, 'C18.header-first', {'route': label}, (writes[0]['off'], writes[0]['len']), (0, 8192))
        allk = sgzfile.trace_keys()
        others = [k for k in allk if k not in fc.stored]
        tf_keys = list(fc.stored) + (others[:4] + others[-2:] if quick else others)
        calls = calls_for(fc.F, tf_keys)
        S = {'label': label, 'writes': writes, 'full': full, 'layout': fc.layout, 'calls': calls}
        S['partials'] = cuts_for(S, rng, quick)
        S['complete'] = [outcome(full, op, a) for op, a in calls]
        for ci, (op, a) in enumerate(calls):
            if S['complete'][ci][0] == 'raise' and op != 'tracefield1':      # a word that is not stored has no array: KeyError
                run.machinery(f'complete file raises for {op}{a} on {label}: {S["complete"][ci]}')
        # the same conversion onto a path that already holds an older, longer file: a crash must not leave the old file's blocks readable
        # behind the new header (the writer's open has to empty the path first)
        hb = 8192
        nb = (len(full) - hb) // 4096
        decoy = full[:hb] + full[hb + 4096:hb + nb * 4096] + full[hb:hb + 4096] + full[hb + nb * 4096:] + bytes(8192) if nb >= 2 else full + bytes(8192)
        with open(p, 'wb') as f:
            f.write(decoy)
        with wseam.recording(p) as rec2:
            thunk(p)
        validate_write_trace(run, label, rec2.writes(), fc.layout, rec2.initial)
        if rec2.initial:
            w2 = rec2.writes()
            idx2 = sorted(set([1, 2, len(w2) // 2, max(1, len(w2) - 3)]))
            for k2 in idx2:
                if 0 < k2 < len(w2):
                    S['partials'][('prefix-on-old-file', f'{k2}')] = wseam.apply_prefix(w2, k2, base=rec2.initial)
        S_all.append(S)
        run.traces_validated += 1
        run.extra.setdefault('write_sequences', {})[label] = [(w['h'], w['off'], w['len']) for w in writes][:40]
        for (kind, cut) in S['partials']:
            for ci in range(len(calls)):
                items.append((si, kind, cut, ci))
    par.G['sources'] = S_all
    for item, got in zip(items, par.pmap(_worker, items)):
        si, kind, cut, ci = item
        S = S_all[si]
        op, a = S['calls'][ci]
        short = len(S['partials'][(kind, cut)]) < len(S['full'])
        case = {'route': S['label'], 'kind': kind, 'cut': cut, 'op': op, 'args': a, 'len': len(S['partials'][(kind, cut)]),
                'cutclass': cutclass(S, kind, cut)}
        run.case(case, nontrivial=short or kind == 'prefix')
        if isinstance(got, par.Crash):
            run.fail(f'C18.raise-or-same[{op}]', case, f'worker died {got}', 'raise or the complete answer')
            continue
        ok = got[0] == 'raise' or got == S['complete'][ci]
        detail = got[1] if got[0] == 'raise' else (diffmeta(got[1], S['complete'][ci][1]) if op == 'meta' else 'a different value')
        if not ok and op == 'meta' and isinstance(detail, dict):
            case['diff'] = sorted(detail)
        run.check(ok, f'C18.raise-or-same[{op}]', case, detail, 'raise or the complete answer')
    # the same partial files read by ONE long-lived reader, twice over
    sweeps = []
    for si, S in enumerate(S_all):
        pk = [k for k in S['partials'] if k[0] == 'prefix' and '+' not in k[1]]
        pk = [pk[i] for i in sorted(set(np.linspace(0, len(pk) - 1, num=min(len(pk), 10 if quick else 40)).astype(int).tolist()))] if pk else []
        sweeps += [(si, kind, cut) for kind, cut in pk]
    for (si, kind, cut), outs in zip(sweeps, par.pmap(_sweep_worker, sweeps, chunksize=1)):
        S = S_all[si]
        if isinstance(outs, par.Crash):
            run.fail('C18.raise-or-same[sweep]', {'route': S['label'], 'kind': kind, 'cut': cut}, f'worker died {outs}', 'raise or the complete answer')
            continue
        for sweep, ci, got in outs:
            op, a = S['calls'][ci]
            case = {'route': S['label'], 'kind': kind, 'cut': cut, 'op': op, 'args': a, 'len': len(S['partials'][(kind, cut)]),
                    'cutclass': cutclass(S, kind, cut), 'history': f'one reader, every call in turn, sweep {sweep}'}
            run.case(case, nontrivial=True)
            ok = got[0] == 'raise' or got == S['complete'][ci]
            run.check(ok, f'C18.raise-or-same[{op}]', case, got[1] if got[0] == 'raise' else 'a different value', 'raise or the complete answer')


def cutclass(S, kind, cut):
    """where the cut falls, in format terms (used by known-finding matching)"""
    if kind != 'prefix':
        return 'trunc'
    k = int(cut.split('+')[0])
    writes = S['writes']
    rest = writes[k:]
    pending = []
    if any(w['off'] == 960 and w['len'] == 20 for w in rest):
        pending.append('hash-patch')
    if any(w['off'] == 64 and w['len'] == 4 for w in rest):
        pending.append('count-patch')
    data_end = 8192 + S['layout']['data_blocks'] * 4096
    if any(w['off'] >= data_end and w['len'] > 20 for w in rest):
        pending.append('footer')
    if any(w['off'] < data_end and w['off'] >= 8192 for w in rest) or k == 0:
        pending.append('data')
    return '+'.join(pending) or 'complete'


def diffmeta(a, b):
    if not isinstance(a, dict) or not isinstance(b, dict):
        return 'different'
    return {k: (str(a.get(k))[:40], str(b.get(k))[:40]) for k in b if a.get(k) != b.get(k)}


def replay(run, rep):
    case = rep['case']
    d = env.subdir('c18r')
    for si, (label, thunk) in enumerate(sources(run)):
        if label != case['route']:
            continue
        p = os.path.join(d, f'o{si}.sgz')
        with wseam.recording(p) as rec:
            thunk(p)
        writes = rec.writes()
        full = open(p, 'rb').read()
        if case['kind'] == 'prefix':
            parts = case['cut'].split('+')
            data = wseam.apply_prefix(writes, int(parts[0]), int(parts[1]) if len(parts) > 1 else None)
        elif case['kind'] == 'prefix-on-old-file':
            nb = (len(full) - 8192) // 4096
            decoy = full[:8192] + full[8192 + 4096:8192 + nb * 4096] + full[8192:8192 + 4096] + full[8192 + nb * 4096:] + bytes(8192) if nb >= 2 else full + bytes(8192)
            with open(p, 'wb') as f:
                f.write(decoy)
            with wseam.recording(p) as rec2:
                thunk(p)
            data = wseam.apply_prefix(rec2.writes(), int(case['cut']), base=rec2.initial or b'')
        else:
            data = full[:int(case['cut'])]
        want = outcome(full, case['op'], case['args'])
        if case.get('history'):         # one reader, every call in turn, twice: the call is judged at the sweep recorded
            from seismic_zfp.read import SgzReader
            fc = session.load_files([session.FileCase(p, label=label)], run)[0]
            allk = sgzfile.trace_keys()
            others = [k for k in allk if k not in fc.stored]
            calls = calls_for(fc.F, list(fc.stored) + (others[:4] + others[-2:] if run.tier == 'quick' else others))
            with env.quiet():
                r = SgzReader(CountingFile(data, name='partial.sgz'))
            got = None
            for sweep in (1, 2):
                for op, a in calls:
                    if op in ('variant_headers', 'meta', 'tracefield', 'tools_cube'):
                        continue
                    g = _call(r, op, a)
                    hit = op == case['op'] and list(a) == list(case['args'])
                    if hit and case['history'].endswith(f'sweep {sweep}'):
                        got = g
                    if g[0] == 'raise':
                        g2 = _call(r, op, a)
                        if hit and case['history'].endswith(f'sweep {sweep} retry'):
                            got = g2
            if got is None:
                return
            run.check(got[0] == 'raise' or got == want, rep['clause'], case, got[1] if got[0] == 'raise' else 'different', None)
            return
        got = outcome(data, case['op'], case['args'], preload=case['kind'] == 'trunc-preload')
        run.check(got[0] == 'raise' or got == want, rep['clause'], case, got[1] if got[0] == 'raise' else 'different', None)
