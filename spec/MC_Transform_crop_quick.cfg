CONSTANT DiskBlockBytes = 64
CONSTANT TBug = "none"
CONSTANT Tier = "quick"
CONSTANT Part = "crop"
SPECIFICATION Spec
INVARIANT PCrop
INVARIANT PRefuse
INVARIANT PReblock
CHECK_DEADLOCK FALSE
