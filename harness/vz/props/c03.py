"""C03 container conformance: every output of every writer (and of compositions of writers) is judged, conjunct by
conjunct, by TLC (Gen_Conform over SgzFormat/SgzVersion) from header fields parsed at specified byte positions, with the
truth taken from the SOURCE and the settings; plus the version field: bijective, order preserving, every
setuptools_scm string accepted."""
import os
import struct
from fractions import Fraction as Fr

import numpy as np
import segyio

from .. import codec, env, inputs, par, session, sgzfile, tlc, writers

FINISH = dict(
    level='model_checking',
    rule='writers = NumPy / SEG-Y (4 detection modes, IBM/IEEE) / 2-D / irregular / ZGY+VDS fixtures / cropper / re-blocker and chains of '
         'length <= 3; inputs chosen so that 4*traces is below, at and above multiples of 512 and header-array counts 0..89; conformance '
         'conjuncts evaluated by TLC; version: TLC exhaustive at reduced radices, Apalache at the real radices, real SeismicZfpVersion '
         'objects (boundary set in quick, all 8 388 608 in thorough), the setuptools_scm string grammar; non-trivial = distinct (chain, input)',
    assumptions=['unused header regions are not inspected'],
    trusted=['zfpy', 'numpy', 'segyio', 'TLC', 'Apalache (thorough tier)'])

WRITER_VERSION = [0, 2, 9, 1]


def truth(dim, n, b, rate, ntr, il=(0, 1), xl=(0, 1), z0=0, dz_us=4000, source_format=0, check_version=True):
    return {'F': {'dim': dim, 'n': list(n), 'b': list(b), 'ub': codec.unit_bytes(rate, dim), 'hblk': 2, 'padfoot': True, 'narr': 0, 'ntr': ntr},
            'il0': int(il[0]), 'ilstep': int(il[1]), 'xl0': int(xl[0]), 'xlstep': int(xl[1]), 'z0': int(z0), 'dz_us': int(dz_us),
            'check_version': check_version, 'writer_version': WRITER_VERSION, 'source_format': source_format}


def parse(path):
    F, meta = sgzfile.descriptor(path, session.fields())
    H = dict(meta['H'])
    stored, alias, const = sgzfile.stored_keys(meta['table'])
    H['table_stored'] = len(stored)
    H['file_len'] = os.path.getsize(path)
    return F, meta, H


def resolved_blockshape(rate, bs, dim):
    vox = int(32768 / Fr(rate))
    bs = list(bs)
    if -1 in bs:
        k = bs.index(-1)
        rest = 1
        for i, v in enumerate(bs):
            if i != k:
                rest *= v
        bs[k] = vox // rest
    return bs


# ---------------------------------------------------------------------------------------------------------------
def stage_numpy(d, k, shape, rate, bs, il, xl, z0, dz_ms, extra_arrays=0, seed=0):
    cube = inputs.cube(shape, seed + k)
    ilines = il[0] + il[1] * np.arange(shape[0])
    xlines = xl[0] + xl[1] * np.arange(shape[1])
    samples = z0 + dz_ms * np.arange(shape[2], dtype=np.float64)
    th = {}
    fields = [segyio.TraceField.CDP_X, segyio.TraceField.CDP_Y, segyio.TraceField.offset]
    if (k // 10) % 2:           # a word stored AFTER the generated inline / crossline arrays (slots follow the byte position of the word, not the order they were given in)
        fields = [segyio.TraceField.ShotPoint, segyio.TraceField.offset, segyio.TraceField.CDP_X]
    for j in range(extra_arrays):
        th[fields[j]] = (np.arange(shape[0] * shape[1]).reshape(shape[0], shape[1]) * (j + 2) - 17).astype(('<i4', '>i4', '<i8', '>i2')[(k + j) % 4] if shape[0] * shape[1] < 5000 else np.int32)
    p = os.path.join(d, f'n{k}.sgz')
    writers.numpy_to_sgz(p, cube, writers.rate_arg(rate), bs, ilines=ilines, xlines=xlines, samples=samples, trace_headers=th)
    T = truth(3, shape, resolved_blockshape(rate, bs, 3), rate, shape[0] * shape[1], il, xl, z0, int(round(dz_ms * 1000)), source_format=20)
    return p, T


def stage_segy(d, k, shape, rate, bs, mode, fmt=5, il=(1, 1), xl=(1, 1), seed=0, reduce_iops=False, window=None, sorting='il'):
    cube = inputs.cube(shape, seed + k)
    sgy = os.path.join(d, f's{k}.sgy')
    inputs.write_segy(sgy, cube, il[0] + il[1] * np.arange(shape[0]), xl[0] + xl[1] * np.arange(shape[1]), np.arange(shape[2]) * 2.0, fmt=fmt,
                      sorting=sorting)
    p = os.path.join(d, f's{k}.sgz')
    writers.segy_to_sgz(sgy, p, writers.rate_arg(rate), bs, header_detection=mode, reduce_iops=reduce_iops, window=window)
    if window is not None:      # an ordinal window <<a, b, c, d>>: the file of the sub-cube
        a, b, c, dd = window
        shape = (b - a, dd - c, shape[2])
        il, xl = (il[0] + a * il[1], il[1]), (xl[0] + c * xl[1], xl[1])
    T = truth(3, shape, resolved_blockshape(rate, bs or (4, 4, -1), 3), rate, shape[0] * shape[1], il, xl, 0, 2000, source_format=0)
    return p, T


def stage_2d(d, k, shape, rate, bs, seed=0, numbering=None):
    data = inputs.cube(shape, seed + k)
    sgy = os.path.join(d, f'l{k}.sgy')
    hdrs = [{segyio.TraceField.CDP: t + 1, segyio.TraceField.CDP_X: 10 * t} for t in range(shape[0])]
    if numbering == 'il':           # a single inline with crossline numbers / a single crossline with inline numbers
        for t, h in enumerate(hdrs):
            h[segyio.TraceField.INLINE_3D], h[segyio.TraceField.CROSSLINE_3D] = 7, 100 + 2 * t
    elif numbering == 'xl':
        for t, h in enumerate(hdrs):
            h[segyio.TraceField.INLINE_3D], h[segyio.TraceField.CROSSLINE_3D] = 50 + t, 9
    inputs.write_segy_traces(sgy, data, 8 + np.arange(shape[1]) * 4.0, hdrs)
    p = os.path.join(d, f'l{k}.sgz')
    writers.segy_to_sgz(sgy, p, writers.rate_arg(rate), bs)
    T = truth(2, (1, shape[0], shape[1]), resolved_blockshape(rate, bs or (1, 16, -1), 2), rate, shape[0], z0=8, dz_us=4000)
    return p, T


def stage_irregular(d, k, grid, holes, rate, il=(10, 2), xl=(5, 3), nz=40, seed=0):
    ni, nx = grid
    present = [(i, x) for i in range(ni) for x in range(nx) if (i, x) not in holes]
    data = inputs.cube((len(present), nz), seed + k)
    hdrs = [{segyio.TraceField.INLINE_3D: il[0] + il[1] * i, segyio.TraceField.CROSSLINE_3D: xl[0] + xl[1] * x,
             segyio.TraceField.CDP_X: 100 * i, segyio.TraceField.CDP_Y: 100 * x} for i, x in present]
    sgy = os.path.join(d, f'i{k}.sgy')
    inputs.write_segy_traces(sgy, data, np.arange(nz) * 4.0, hdrs)
    p = os.path.join(d, f'i{k}.sgz')
    writers.segy_to_sgz(sgy, p, writers.rate_arg(rate), None)
    T = truth(3, (ni, nx, nz), resolved_blockshape(rate, (4, 4, -1), 3), rate, len(present), il, xl, 0, 4000)
    T['holes'] = sorted([list(h) for h in holes])
    return p, T


def stage_fixture(d, k, name):
    """an archived file written by an older release: the truth is what its own header says under ITS release's conventions
    (independent parse at the published byte positions); only the files DERIVED from it are judged"""
    import shutil
    p = os.path.join(d, f'f{k}.sgz')
    shutil.copy(os.path.join(inputs.FIXTURES, name), p)
    F, meta = sgzfile.descriptor(p, session.fields())
    T = truth(F['dim'], F['n'], F['b'], meta['rate'], F['ntr'], (F['il']['s'], F['il']['d']), (F['xl']['s'], F['xl']['d']),
              int(meta['z0']), int(meta['dz'] * 1000), source_format=meta['H']['source_format'], check_version=False)
    T['F'] = dict(T['F'], hblk=F['hblk'])
    T['nojudge'] = True
    return p, T


def stage_crop(d, k, src, T, box):
    """box: ((i0,i1),(x0,x1),(z0,z1)) by index; truth = aligned outward to the blockshape and clipped"""
    from seismic_zfp.cropping import SgzCropper
    p = os.path.join(d, f'c{k}.sgz')
    with env.quiet():
        with SgzCropper(src) as c:
            c.write_cropped_file_by_indexes(p, box[0], box[1], box[2])
    F = T['F']
    n, lo = [], []
    for ax in range(3):
        rng = box[ax] if box[ax] is not None else (0, F['n'][ax])
        b = F['b'][ax]
        a0 = (rng[0] // b) * b
        a1 = min(-(-rng[1] // b) * b, F['n'][ax])
        lo.append(a0)
        n.append(a1 - a0)
    T2 = dict(T)
    # an irregular source stays irregular: the traces present in the box
    holes = [[i - lo[0], x - lo[1]] for i, x in T.get('holes', []) if lo[0] <= i < lo[0] + n[0] and lo[1] <= x < lo[1] + n[1]]
    T2['holes'] = holes
    T2['F'] = dict(F, n=n, ntr=n[0] * n[1] - len(holes))
    T2['il0'] = T['il0'] + lo[0] * T['ilstep']
    T2['xl0'] = T['xl0'] + lo[1] * T['xlstep']
    T2['z0'] = T['z0'] + lo[2] * T['dz_us'] // 1000
    T2['check_version'] = False
    T2.pop('nojudge', None)
    return p, T2


def stage_reblock(d, k, src, T):
    from seismic_zfp.conversion import SgzConverter
    p = os.path.join(d, f'r{k}.sgz')
    with env.quiet():
        with SgzConverter(src) as c:
            c.convert_to_adv_sgz(p)
    T2 = dict(T)
    T2['F'] = dict(T['F'], b=[64, 64, 4])
    T2['check_version'] = False
    T2.pop('nojudge', None)
    return p, T2


def stage_export_reconvert(d, k, src, T, rate, bs):
    from seismic_zfp.conversion import SgzConverter
    sgy = os.path.join(d, f'e{k}.sgy')
    with env.quiet():
        with SgzConverter(src) as c:
            c.convert_to_segy(sgy)
    p = os.path.join(d, f'e{k}.sgz')
    writers.segy_to_sgz(sgy, p, writers.rate_arg(rate), bs)
    T2 = dict(T)
    dim = T['F']['dim']
    T2['F'] = dict(T['F'], b=resolved_blockshape(rate, bs, dim), ub=codec.unit_bytes(rate, dim))
    T2['check_version'] = True
    T2['source_format'] = 0
    return p, T2


def chains(run):
    """list of (label, [stage thunks]) - each thunk(d, k, prev_path, prev_T) -> (path, T)"""
    quick = run.tier == 'quick'
    s = run.seed
    C = []

    def numpy(shape, rate, bs, il=(0, 1), xl=(0, 1), z0=0, dz=4.0, extra=0):
        return lambda d, k, pp, pT: stage_numpy(d, k, shape, rate, bs, il, xl, z0, dz, extra, s)

    def segy(shape, rate, bs, mode, **kw):
        return lambda d, k, pp, pT: stage_segy(d, k, shape, rate, bs, mode, seed=s, **kw)

    def crop(box):
        return lambda d, k, pp, pT: stage_crop(d, k, pp, pT, box)

    def reblock():
        return lambda d, k, pp, pT: stage_reblock(d, k, pp, pT)

    def reconv(rate, bs):
        return lambda d, k, pp, pT: stage_export_reconvert(d, k, pp, pT, rate, bs)

    # trace counts with 4*n below / at / above multiples of 512, header-array counts 2..5
    for shape in [(8, 16, 10), (2, 64, 6), (3, 43, 6), (7, 18, 9), (16, 16, 5), (2, 63, 5), (5, 26, 7), (2, 2, 2), (4, 32, 70)]:
        C.append((f'numpy{shape}', [numpy(shape, 16, (4, 4, -1), il=(100, 2), xl=(-7, 3), z0=-8, dz=2.0, extra=shape[0] % 4)]))
    for rate, bs in ((32, (8, 8, 16)), (Fr(1, 2), (4, 4, -1)), (2, (64, 64, 4)), (8, (4, 8, 128)), (32, (16, 16, 4))):
        C.append((f'numpy r{rate} {bs}', [numpy((9, 10, 12), rate, bs, il=(-5, 1), xl=(3, 1))]))
    for mode in ('heuristic', 'thorough', 'exhaustive', 'strip'):
        C.append((f'segy {mode}', [segy((8, 16, 20), 16, None, mode)]))
        C.append((f'segy {mode} 5x7', [segy((5, 7, 20), 8, (4, 4, -1), mode, il=(3, 2), xl=(9, -1) if False else (9, 4))]))
    C.append(('segy ibm iops', [segy((6, 5, 33), 16, None, 'heuristic', fmt=1, reduce_iops=True)]))
    # ordinal windows (different lower bounds on the two axes), a crossline-sorted source
    C.append(('segy window (1,5,2,8)', [segy((8, 9, 20), 16, None, 'heuristic', il=(10, 2), xl=(100, 5), window=(1, 5, 2, 8))]))
    C.append(('segy window (0,3,4,9) thorough iops', [segy((8, 9, 20), 8, (4, 4, -1), 'thorough', il=(10, 2), xl=(100, 5), window=(0, 3, 4, 9), reduce_iops=True)]))
    C.append(('segy window (3,8,0,2) -> crop', [segy((8, 9, 64), 32, (4, 4, -1), 'heuristic', il=(-10, 3), xl=(7, 1), window=(3, 8, 0, 2)), crop(((0, 4), None, None))]))
    C.append(('segy crossline-sorted', [segy((6, 7, 20), 16, None, 'thorough', il=(10, 2), xl=(100, 5), sorting='xl')]))
    for shape, rate, bs in (((128, 20), 8, (1, 4, -1)), ((129, 9), 4, None), ((9, 70), 16, (1, 16, -1)), ((2, 2), 8, (1, 4, -1))):
        C.append((f'2d{shape}', [lambda d, k, pp, pT, shape=shape, rate=rate, bs=bs: stage_2d(d, k, shape, rate, bs, s)]))
    for numbering, shape in (('il', (37, 20)), ('xl', (16, 9))):
        C.append((f'2d{shape} numbered {numbering}', [lambda d, k, pp, pT, shape=shape, numbering=numbering: stage_2d(d, k, shape, 8, None, s, numbering)]))
    for grid, holes in (((4, 5), {(0, 0)}), ((8, 16), {(7, 15), (3, 3)}), ((3, 3), {(1, 1), (0, 2)})):
        C.append((f'irregular{grid}', [lambda d, k, pp, pT, grid=grid, holes=holes: stage_irregular(d, k, grid, holes, 16, seed=s)]))
    # compositions
    C.append(('numpy -> crop', [numpy((12, 13, 300), 16, (4, 4, -1), il=(10, 1), xl=(20, 2), z0=0, dz=4.0, extra=1), crop(((4, 8), (1, 9), (128, 256)))]))
    C.append(('numpy -> crop(clipped, unaligned)', [numpy((10, 9, 70), 32, (4, 4, -1), il=(1, 1), xl=(1, 1)), crop(((3, 10), (2, 9), None))]))
    C.append(('numpy -> crop(upper bounds inside the last, partial block)', [numpy((10, 9, 70), 32, (4, 4, -1), il=(1, 1), xl=(1, 1), extra=2), crop(((4, 9), (2, 9), None))]))
    C.append(('numpy (8,8,16) -> crop(upper bound inside the last, partial block)', [numpy((13, 11, 20), 32, (8, 8, 16), il=(5, 2), xl=(1, 3), extra=1), crop(((0, 10), (8, 10), None))]))
    C.append(('numpy(negative origin) -> crop', [numpy((8, 8, 64), 32, (4, 4, -1), il=(-20, 2), xl=(-9, 1)), crop(((0, 4), (4, 8), None))]))
    C.append(('segy thorough -> crop -> crop', [segy((12, 9, 140), 32, None, 'thorough'), crop(((0, 8), None, None)), crop((None, (4, 9), (64, 128)))]))
    C.append(('numpy 2bit -> reblock', [numpy((5, 70, 9), 2, (4, 4, -1), il=(1, 1), xl=(1, 1), extra=2), reblock()]))
    C.append(('numpy 2bit -> crop -> reblock', [numpy((9, 66, 1030), 2, (4, 4, -1), il=(1, 1), xl=(1, 1)), crop(((0, 8), None, (0, 1024))), reblock()]))
    C.append(('segy -> export -> convert', [segy((5, 6, 40), 16, None, 'heuristic'), reconv(8, (4, 4, -1))]))
    C.append(('segy -> crop -> export+convert', [segy((8, 8, 128), 32, (4, 4, -1), 'heuristic', il=(5, 1), xl=(7, 1)), crop(((4, 8), None, None)), reconv(16, (8, 8, 32))]))
    # asymmetric extents x non-square blockshapes (padded products differ if two dimensions are exchanged)
    for shape, rate, bs in (((5, 9, 12), 8, (4, 8, 128)), ((5, 9, 12), 4, (8, 16, 64)), ((9, 5, 12), 4, (16, 8, -1)), ((3, 70, 5), 1, (64, 128, 4)),
                            ((70, 3, 5), 2, (128, 32, 4)), ((5, 9, 12), 8, (4, 16, 64))):
        C.append((f'numpy asym {shape} r{rate} {bs}', [numpy(shape, rate, bs, il=(3, 2), xl=(-4, 5), extra=1)]))
    C.append(('segy asym (9,5,12) r4 (16,8,-1)', [segy((9, 5, 12), 4, (16, 8, -1), 'heuristic', il=(3, 2), xl=(9, 4))]))
    # crops between footer-stride classes: source arrays exactly 512-aligned -> unaligned crop, unaligned source -> aligned crop
    C.append(('numpy 8x16 (aligned footer) -> crop 4x16', [numpy((8, 16, 10), 16, (4, 4, -1), il=(1, 1), xl=(1, 1), extra=2), crop(((0, 4), None, None))]))
    C.append(('numpy 16x16 (aligned footer) -> crop 8x8', [numpy((16, 16, 6), 16, (4, 4, -1), il=(1, 1), xl=(1, 1), extra=1), crop(((4, 12), (0, 8), None))]))
    C.append(('numpy 16x24 -> crop 8x16 (aligned footer)', [numpy((16, 24, 6), 16, (4, 4, -1), il=(1, 1), xl=(1, 1), extra=3), crop(((8, 16), (4, 20), None))]))
    C.append(('segy thorough 12x16 -> crop 8x16 -> crop 4x16', [segy((12, 16, 20), 16, None, 'thorough'), crop(((4, 12), None, None)), crop(((0, 4), None, None))]))
    # files written by older releases (other footer stride, no trace-count field, interval in ms) through today's cropper / re-blocker:
    # the derived file must be self-consistent under the conventions of the version IT records
    def fixture(name):
        return lambda d, k, pp, pT: stage_fixture(d, k, name)
    for name, box in (('small_4bit.sgz', ((0, 4), None, None)), ('small_8bit-8x8.sgz', (None, (0, 5), None)), ('small-dec_8bit.sgz', ((0, 3), (0, 3), None)),
                      ('padding/padding_6x7.sgz', ((4, 6), (0, 4), None)), ('small_8bit.sgz', ((0, 4), (4, 5), None)),
                      ('small_v0.0.1.sgz', (None, None, (0, 50))), ('padding/padding_8x8.sgz', ((0, 8), (4, 8), (0, 128)))):
        C.append((f'fixture {name} -> crop', [fixture(name), crop(box)]))
    C.append(('fixture small_2bit.sgz -> reblock', [fixture('small_2bit.sgz'), reblock()]))
    C.append(('fixture small_2bit.sgz -> crop -> reblock', [fixture('small_2bit.sgz'), crop(((0, 4), None, None)), reblock()]))
    if not quick:
        for shape in [(3, 85, 6), (128, 3, 5), (2, 65, 5), (32, 4, 4), (13, 10, 70), (64, 2, 9)]:
            C.append((f'numpy{shape}', [numpy(shape, 8, (4, 4, -1), il=(2**20, 5), xl=(-2**20, 7), z0=-100, dz=0.5, extra=3)]))
        C.append(('numpy -> crop x3', [numpy((16, 16, 256), 32, (4, 4, -1)), crop(((4, 16), None, None)), crop((None, (4, 12), None)), crop((None, None, (64, 192)))]))
        C.append(('irregular -> crop', [lambda d, k, pp, pT: stage_irregular(d, k, (8, 8), {(0, 0), (7, 7)}, 16, seed=s), crop(((4, 8), None, None))]))
    return C


def _chain_worker(item):
    ci, = item
    label, stages = par.G['chains'][ci]
    d = env.subdir(f'c03-{os.getpid()}-{ci}')
    out = []
    pp, pT = None, None
    for si, st in enumerate(stages):
        try:
            pp, pT = st(d, ci * 10 + si, pp, pT)
            F, meta, H = parse(pp)
            out.append({'stage': si, 'T': pT, 'H': H, 'path': pp})
        except BaseException as e:
            if isinstance(e, (KeyboardInterrupt, SystemExit, MemoryError)):
                raise
            out.append({'stage': si, 'error': f'{type(e).__name__}: {e}'})
            break
    return out


def fixture_conversions(run, d):
    """ZGY / VDS fixtures: truth from the source handle"""
    from seismic_zfp.seismicfile import SeismicFile
    import seismic_zfp.conversion as cv
    out = []
    for sub, conv, code in (('zgy', 'ZgyConverter', 10), ('vds', 'VdsConverter', 30)):
        dd = os.path.join(inputs.FIXTURES, sub)
        for f in sorted(os.listdir(dd)) if os.path.isdir(dd) else []:
            if not f.endswith('.' + sub):
                continue
            src = os.path.join(dd, f)
            p = os.path.join(d, f + '.sgz')
            try:
                with env.quiet():
                    with getattr(cv, conv)(src) as c:
                        c.run(p, bits_per_voxel=8)
                    with SeismicFile.open(src) as h:
                        il, xl, zs = np.asarray(h.ilines), np.asarray(h.xlines), np.asarray(h.samples, dtype=np.float64)
                T = truth(3, (len(il), len(xl), len(zs)), [4, 4, 256], 8, len(il) * len(xl), (il[0], il[1] - il[0]), (xl[0], xl[1] - xl[0]),
                          int(zs[0]), int(1000.0 * (zs[1] - zs[0])), source_format=code)
                F, meta, H = parse(p)
                out.append((f'{sub}:{f}', T, H, p))
            except BaseException as e:
                if isinstance(e, (KeyboardInterrupt, SystemExit, MemoryError)):
                    raise
                out.append((f'{sub}:{f}', None, f'{type(e).__name__}: {e}', None))
    return out


def run(run):
    quick = run.tier == 'quick'
    run.mc('MC_Version', f'MC_Version_{run.tier}')
    session.fields()
    C = chains(run)
    par.G['chains'] = C
    results = par.pmap(_chain_worker, [(i,) for i in range(len(C))], chunksize=1)
    items, index = [], []
    for (label, stages), res in zip(C, results):
        if isinstance(res, par.Crash):
            run.fail('C03.writer-runs', {'chain': label}, str(res), 'files')
            continue
        for r in res:
            case = {'chain': label, 'stage': r['stage']}
            run.case(case)
            if 'error' in r:
                run.fail('C03.writer-runs', case, r['error'], 'a file')
                continue
            if r['T'].get('nojudge'):
                continue
            items.append({'T': r['T'], 'H': r['H']})
            index.append((case, r))
    d = env.subdir('c03fx')
    for label, T, H, p in fixture_conversions(run, d):
        case = {'chain': label, 'stage': 0}
        run.case(case)
        if T is None:
            run.fail('C03.writer-runs', case, H, 'a file')
            continue
        items.append({'T': T, 'H': H})
        index.append((case, {'path': p, 'T': T, 'H': H}))
    out = tlc.oracle('Gen_Conform', {'items': items}, key='items')
    run.add_tlc({'distinct': 0, 'generated': out['_tlc']['generated'], 'wall_s': out['_tlc']['wall_s']}, 'Gen_Conform')
    for (case, r), o in zip(index, out['items']):
        failed = [f[0] for f in o['failed']]
        for name in ('wellformed', 'n_header_blocks', 'n_samples', 'n_xlines', 'n_ilines', 'min_iline', 'min_xline', 'iline_interval',
                     'xline_interval', 'min_sample', 'sample_interval', 'bits_per_voxel', 'blockshape', 'data_blocks', 'entry_bytes',
                     'tracecount', 'version_is_writer', 'table_names_stored_arrays', 'file_length', 'source_format'):
            if name in failed:
                run.fail(f'C03.{name}', case, {k: r['H'].get(k) for k in (name, 'file_len', 'n_header_arrays', 'entry_bytes', 'version') if k in r['H']},
                         {'T': {k: v for k, v in r['T'].items() if k != 'F'}, 'F': r['T']['F'], 'stride': o['stride']})
            else:
                run.ok(f'C03.{name}')
    # a decoder written from the specification alone reads every sample and every header array
    fcs = [session.FileCase(r['path']) for case, r in index]
    lay = tlc.oracle('Gen_Api', {'files': [c.F for c in fcs], 'calls': []})
    for (case, r), fc, l in zip(index, fcs, lay['files']):
        try:
            fc.attach(l)
            for k in range(fc.F['narr']):
                fc.ref.footer_array(k)
            run.ok('C03.decodable')
            # the table says which slot holds which header word: on a regular cube the slots named INLINE_3D / CROSSLINE_3D hold the header's own axes
            F = fc.F
            if F['dim'] == 3 and not (F.get('mask') and 0 in F['mask']):
                ni, nx = F['n'][0], F['n'][1]
                for key, want in ((189, np.repeat(F['il']['s'] + F['il']['d'] * np.arange(ni), nx)), (193, np.tile(F['xl']['s'] + F['xl']['d'] * np.arange(nx), ni))):
                    if key in fc.stored:
                        got = np.asarray(fc.ref.footer_array(list(fc.stored).index(key))).astype(np.int64).reshape(-1)
                        run.check(got.shape == want.shape and np.array_equal(got, want), 'C03.line-arrays-in-their-slots', dict(case, word=key),
                                  got[:6].tolist(), want[:6].tolist())
        except BaseException as e:
            if isinstance(e, (KeyboardInterrupt, SystemExit, MemoryError)):
                raise
            run.fail('C03.decodable', case, f'{type(e).__name__}: {e}', 'every unit and footer array inside the file')
    version_checks(run)


# ---------------------------------------------------------------------------------------------------------------
SCM_STRINGS = [
    ('0.2.9', (0, 2, 9, 1)), ('0.2.10.dev3+g1a2b3c4', (0, 2, 10, 0)), ('0.2.10.dev3+g1a2b3c4.d20260928', (0, 2, 10, 0)),
    ('0.2.9+d20260928', (0, 2, 9, 0)), ('0.1.dev1+g45bcf9689', (0, 1, 0, 0)), ('0.1.dev1+g45bcf9689.d20260101', (0, 1, 0, 0)),
    ('1.0.0', (1, 0, 0, 1)), ('1.0', (1, 0, 0, 1)), ('0.2.9rc1', (0, 2, 9, 0)), ('0.2.9.post1', (0, 2, 9, 0)), ('0.0.0', (0, 0, 0, 1)),
    ('3.1023.1023', (3, 1023, 1023, 1)), ('0.2.9.post1.dev2+gabc1234', (0, 2, 9, 0)), ('0.3.dev0+d20260928', (0, 3, 0, 0)),
    ('0.2.2.dev0', (0, 2, 2, 0)), ('0.1.7a1', (0, 1, 7, 0)), ('2.5.1+local.tag', (2, 5, 1, 0))]


def _vchunk(rng_):
    from seismic_zfp.version import SeismicZfpVersion as V
    lo, hi = rng_
    bad = []
    prev = V(lo - 1).encoding if lo > 0 else -1
    for e in range(lo, hi):
        v = V(e)
        t = (v.major, v.minor, v.patch, 0 if v.changes_exist else 1)
        w = V(t[:3] + (('.dev',) if t[3] == 0 else ()))
        if w.encoding != e or not (0 <= v.major < 4 and 0 <= v.minor < 1024 and 0 <= v.patch < 1024):
            bad.append(('roundtrip', e, t))
        # release order: e-1 -> e must be the successor in (major, minor, patch, dev<release) order
        ma, mi, pa, rel = t
        exp = ((ma * 1024 + mi) * 1024 + pa) * 2 + rel
        if exp != e:
            bad.append(('order', e, t))
        if len(bad) > 5:
            break
    return bad, hi - lo


def version_checks(run):
    from seismic_zfp.version import SeismicZfpVersion as V
    quick = run.tier == 'quick'
    # strings setuptools_scm can emit
    for s, exp in SCM_STRINGS:
        case = {'version_string': s}
        run.case(case)
        try:
            v = V(s)
            got = (v.major, v.minor, v.patch, 0 if v.changes_exist else 1)
        except BaseException as e:
            got = f'{type(e).__name__}: {e}'
        run.check(got == exp, 'C03.version-string', case, got, exp)
    # the gates, on both sides, through the real comparison operators
    for a, b, gt in (('0.2.2.dev', '0.2.1', True), ('0.2.1', '0.2.1', False), ('0.2.1.dev', '0.2.1', False), ('0.2.2', '0.2.1', True),
                     ('0.1.7.dev', '0.1.6', True), ('0.1.6', '0.1.6', False), ('1.0.0', '0.1023.1023', True), ('0.3.0.dev', '0.2.1023', True)):
        case = {'pair': [a, b]}
        run.case(case)
        run.check((V(a) > V(b)) == gt, 'C03.version-order', case, V(a) > V(b), gt)
    # the recorded version as the READER sees it: one file, its 4-byte version word rewritten to each release (the word is 32 bits wide:
    # a major release or a minor number above 31 does not fit in 16), read back and compared; the file stays readable as a current one
    from .. import writers
    from seismic_zfp.read import SgzReader
    d = env.subdir('c03v')
    p0 = os.path.join(d, 'stamp.sgz')
    shape = (5, 6, 9)
    th = {segyio.TraceField.CDP_X: (np.arange(30).reshape(5, 6) * 7 + 3).astype(np.int32), segyio.TraceField.CDP_Y: (1000 - np.arange(30).reshape(5, 6)).astype(np.int32)}
    writers.numpy_to_sgz(p0, inputs.cube(shape, run.seed + 77), 16, (4, 4, -1), trace_headers=th, samples=2.0 * np.arange(9))
    with open(p0, 'rb') as f:
        base = bytearray(f.read())
    for vs in ('0.2.9', '0.2.2', '0.2.2.dev', '0.31.1023', '0.32.0', '0.32.0.dev', '1.0.0', '1.2.3', '2.0.0.dev', '3.1023.1023'):
        case = {'recorded_version': vs}
        run.case(case)
        b = bytearray(base)
        b[72:76] = int(V(vs).encoding).to_bytes(4, 'little')
        with open(p0, 'wb') as f:
            f.write(b)
        try:
            with env.quiet():
                with SgzReader(p0) as r:
                    got = {'version': r.file_version.string_version, 'dz': float(r.zslices[1] - r.zslices[0]), 'ntr': int(r.tracecount),
                           'last': {int(k): int(v) for k, v in r.gen_trace_header(29).items() if int(k) in (181, 185, 189, 193)}}
        except BaseException as e:
            if isinstance(e, (KeyboardInterrupt, SystemExit, MemoryError)):
                raise
            got = f'{type(e).__name__}: {e}'
        want = {'version': V(vs).string_version, 'dz': 2.0, 'ntr': 30, 'last': {181: 29 * 7 + 3, 185: 1000 - 29, 189: 4, 193: 5}}
        run.check(got == want, 'C03.version-read-back', case, got, want)
    os.remove(p0)
    # encoding: bijection preserving release order over the whole range (thorough) / the boundary set (quick)
    top = 4 * 1024 * 1024 * 2
    if quick:
        edges = sorted({0, 1, 2, 2047, 2048, 2049, 4114, 4115, 4116, 2 * 1024 * 1024 - 1, 2 * 1024 * 1024, top - 2, top - 1} |
                       {((ma * 1024 + mi) * 1024 + pa) * 2 + r for ma in (0, 1, 3) for mi in (0, 1, 2, 1023) for pa in (0, 1, 6, 7, 1023) for r in (0, 1)})
        chunks = [(e, e + 1) for e in edges] + [(k, k + 4096) for k in range(0, top, top // 32)]
    else:
        step = top // 256
        chunks = [(k, min(k + step, top)) for k in range(0, top, step)]
    total = 0
    for (lo, hi), res in zip(chunks, par.pmap(_vchunk, chunks, chunksize=max(1, len(chunks) // 64))):
        if isinstance(res, par.Crash):
            run.machinery(f'version worker died {res}')
            continue
        bad, n = res
        total += n
        case = {'encodings': [lo, hi]}
        run.case(case, nontrivial=True)
        run.check(not bad, 'C03.version-bijective-ordered', case, bad[:3], 'Dec(Enc(v)) = v and Enc increasing in release order')
    run.extra['versions_enumerated'] = total
    run.exhaustive = (not quick)
    if not quick:
        import subprocess
        import shutil
        od = env.subdir('apa')
        try:
            p = subprocess.run(['apalache-mc', 'check', '--inv=Lemma', '--length=0', f'--out-dir={od}', 'APA_Version.tla'], cwd=env.SPEC,
                               stdout=subprocess.PIPE, stderr=subprocess.STDOUT, text=True, timeout=600)
            ok = 'EXITCODE: OK' in p.stdout
            run.extra['apalache'] = 'Lemma holds at radices 4 x 1024 x 1024 x 2' if ok else p.stdout[-400:]
            if not ok:
                run.machinery('Apalache did not prove APA_Version!Lemma')
        except Exception as e:
            run.notes.append(f'apalache unavailable: {e}')


def replay(run, rep):
    c = rep['case']
    if 'chain' not in c:
        version_checks(run)
        return
    C = chains(run)
    par.G['chains'] = C
    ci = [i for i, (l, _) in enumerate(C) if l == c['chain']]
    if not ci:
        return
    res = _chain_worker((ci[0],))
    r = [x for x in res if x['stage'] == c['stage']]
    if not r or 'error' in r[0]:
        run.fail('C03.writer-runs', c, (r or res)[-1].get('error'), None)
        return
    out = tlc.oracle('Gen_Conform', {'items': [{'T': r[0]['T'], 'H': r[0]['H']}]}, key='items')
    failed = [f[0] for f in out['items'][0]['failed']]
    name = rep['clause'].split('.', 1)[1]
    if name == 'decodable':
        try:
            fc = session.load_files([session.FileCase(r[0]['path'])], None)[0]
            for k in range(fc.F['narr']):
                fc.ref.footer_array(k)
        except BaseException as e:
            run.fail(rep['clause'], c, str(e), None)
        return
    if name == 'line-arrays-in-their-slots':
        fc = session.load_files([session.FileCase(r[0]['path'])], None)[0]
        F, key = fc.F, c['word']
        ni, nx = F['n'][0], F['n'][1]
        want = np.repeat(F['il']['s'] + F['il']['d'] * np.arange(ni), nx) if key == 189 else np.tile(F['xl']['s'] + F['xl']['d'] * np.arange(nx), ni)
        got = np.asarray(fc.ref.footer_array(list(fc.stored).index(key))).astype(np.int64).reshape(-1)
        run.check(got.shape == want.shape and np.array_equal(got, want), rep['clause'], c, got[:6].tolist(), want[:6].tolist())
        return
    run.check(name not in failed, rep['clause'], c, failed, None)
