----------------------------- MODULE Gen_HeaderState -----------------------------
(* MC_HeaderState on the hole pattern of a real file, over the alphabet the harness will replay: prints every history of depth D
   with the outcome of each step (C15 pass `header-state`). *)
EXTENDS MC_HeaderState, Json, IOUtils
In == JsonDeserialize(IOEnv.VZ_IN)
MaskIn == In.mask
DIn == In.D
AlphaIn == In.alphabet
=============================================================================
