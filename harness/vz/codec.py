"""The interpretation of the specification's uninterpreted codec: Enc := zfpy fixed-rate coding of one
4x4x4 (4x4) unit, Dec := its inverse.  zfpy/numpy are the trusted base."""
from fractions import Fraction

import numpy as np
import zfpy

_ZT = zfpy.dtype_to_ztype(np.dtype('float32'))


def rate_of_code(code):
    """header bits-per-voxel code -> exact rate (negative = reciprocal)."""
    return Fraction(code) if code > 0 else Fraction(1, -code)


def unit_bytes(rate, dim):
    ub = Fraction(rate) * (64 if dim == 3 else 16) / 8
    assert ub.denominator == 1, (rate, dim)
    return int(ub)


def rate_float(rate):
    r = Fraction(rate)
    return int(r) if r.denominator == 1 else float(r)


def compress(arr, rate):
    return zfpy.compress_numpy(np.ascontiguousarray(arr, dtype=np.float32), rate=rate_float(rate), write_header=False)


def decompress(buf, shape, rate):
    return zfpy._decompress(bytes(buf), _ZT, tuple(shape), rate=rate_float(rate))


def pad4(a, mode='edge'):
    pads = [(0, (-s) % 4) for s in a.shape]
    if mode == 'edge':
        return np.pad(a, pads, 'edge')
    return np.pad(a, pads, 'constant', constant_values=0)


def ideal_volume(src, rate, mode='edge'):
    """The ZFP fixed-rate image of src extended to a multiple of 4 per dimension (C01/C08/C09 oracle)."""
    p = pad4(np.asarray(src, dtype=np.float32), mode)
    dec = decompress(compress(p, rate), p.shape, rate)
    return dec[tuple(slice(0, s) for s in src.shape)]


def ideal_padded(src, rate, mode='edge'):
    p = pad4(np.asarray(src, dtype=np.float32), mode)
    return decompress(compress(p, rate), p.shape, rate)


def unit_stream(src, rate, mode='edge'):
    """Enc of every unit of the 4-padded src, in C-raster order of units: list of bytes."""
    p = pad4(np.asarray(src, dtype=np.float32), mode)
    whole = compress(p, rate)
    ub = unit_bytes(rate, p.ndim)
    return [whole[k:k + ub] for k in range(0, len(whole), ub)], tuple(s // 4 for s in p.shape)


def bits(a):
    return np.ascontiguousarray(a, dtype=np.float32).view(np.uint32)


def same_bits(a, b):
    a, b = np.asarray(a), np.asarray(b)
    if a.shape != b.shape:
        return False
    if a.dtype != np.float32:
        a32 = a.astype(np.float32)
        if not np.array_equal(a32.astype(a.dtype), a, equal_nan=True):
            return False
        a = a32
    if b.dtype != np.float32:
        b = b.astype(np.float32)
    return bool(np.array_equal(bits(a), bits(b)))


def self_check(seed=0):
    """zfpy is deterministic and unit-independent at every rate: whole-array coding is the concatenation
    of per-unit codings in C-raster order, and every unit decodes on its own."""
    rng = np.random.default_rng(seed)
    for rate in (Fraction(1, 4), Fraction(1, 2), 1, 2, 4, 8, 16, 32):
        for shape in ((8, 4, 12), (4, 8)):
            if len(shape) == 2 and rate < 1:
                continue
            a = (rng.standard_normal(shape) * 10.0 ** rng.integers(-3, 4)).astype(np.float32)
            whole = compress(a, rate)
            ub = unit_bytes(rate, len(shape))
            us = [s // 4 for s in shape]
            n = ub * int(np.prod(us))
            if not (n <= len(whole) < n + 8):     # the stream is padded to a 64-bit word
                return False
            k = 0
            dec = decompress(whole, shape, rate)
            for idx in np.ndindex(*us):
                sl = tuple(slice(4 * i, 4 * i + 4) for i in idx)
                one = compress(a[sl], rate)
                if len(one) < ub:        # zfpy pads tiny streams to a word; the unit is its prefix
                    return False
                if bytes(one[:ub]) != bytes(whole[k * ub:(k + 1) * ub]):
                    return False
                d1 = decompress(bytes(whole[k * ub:(k + 1) * ub]) + bytes(8), (4,) * len(shape), rate)
                if not np.array_equal(bits(d1), bits(dec[sl])):
                    return False
                k += 1
    return True
