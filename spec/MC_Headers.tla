----------------------------- MODULE MC_Headers -----------------------------
(* C04, exhaustive: every source matrix over NFm fields x 3 traces x Vals, every detection mode, the NumPy route with every
   subset of given fields, regular / 2-D (mask all TRUE) and irregular 2x2 grids with one hole.  The matrix is built one
   field per step so that TLC's workers share the enumeration. *)
EXTENDS SgzHeaders, TLC
CONSTANTS NFm, Vals
IL == 2
XL == 3
Cols == {<<a, b, c>> : a \in Vals, b \in Vals, c \in Vals}
Masks == {<<TRUE, TRUE, TRUE>>, <<FALSE, TRUE, TRUE, TRUE>>, <<TRUE, FALSE, TRUE, TRUE>>, <<TRUE, TRUE, FALSE, TRUE>>, <<TRUE, TRUE, TRUE, FALSE>>}
IlOfPos == <<1, 1, 2, 2>>           \* inline numbers of the 2x2 grid positions (never 0: the format's hole marker)
ForcedIl(g) == [i \in 1..3 |-> IlOfPos[Pos(g, i)]]
Subsets == SUBSET (1..NFm)
Modes == {[kind |-> k, given |-> {}, il |-> IL, xl |-> XL] : k \in {"heuristic", "thorough", "exhaustive", "strip"}}
         \cup {[kind |-> "numpy", given |-> S, il |-> IL, xl |-> XL] : S \in Subsets}

MCInit == /\ geo \in Masks /\ mode \in Modes
          /\ (~Regular(geo)) => mode.kind \in {"heuristic", "thorough", "exhaustive"}
          /\ src = <<>> /\ pc = "build" /\ table = <<>> /\ keys = <<>> /\ cap = <<>>
          /\ file = [table |-> <<>>, narr |-> 0, arrays |-> <<>>]
Build == /\ pc = "build"
         /\ IF Len(src) = NFm THEN pc' = "detect" /\ UNCHANGED src
            ELSE /\ \E c \in (IF ~Regular(geo) /\ Len(src) + 1 = IL THEN {ForcedIl(geo)} ELSE Cols) : src' = Append(src, c)
                 /\ UNCHANGED pc
         /\ UNCHANGED <<geo, mode, table, keys, cap, file>>
MCNext == Build \/ HNext
MCSpec == MCInit /\ [][MCNext]_hvars
=============================================================================
