CONSTANT DiskBlockBytes = 64
CONSTANT Bug = "none"
CONSTANT Tier = "thorough"
SPECIFICATION Spec
INVARIANT BoundsSafe
CHECK_DEADLOCK FALSE
