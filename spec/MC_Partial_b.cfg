CONSTANT NBlk = 5
CONSTANT NArr = 0
CONSTANT Patch = FALSE
CONSTANT OldLen = 0
CONSTANT PBug = "none"
SPECIFICATION PSpec
INVARIANT InRangeIsFinal
INVARIANT InterimHarmless
INVARIANT Complete
CHECK_DEADLOCK FALSE
