CONSTANT DiskBlockBytes = 4096
CONSTANT Bug = "none"
SPECIFICATION Spec
