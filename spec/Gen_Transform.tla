----------------------------- MODULE Gen_Transform -----------------------------
(* C10 / C12 oracle at the real disk block: for a real file descriptor and a crop box / the 64x64x4 target, whether the request is
   refused, the descriptor of the result, and the copy map (source data-section offset of every unit slot of the result). *)
EXTENDS SgzTransform, Json, IOUtils, TLC
Input == JsonDeserialize(IOEnv.VZ_IN)
Items == Input.items
BoxOf(it) == [a \in 1..3 |-> IF it.box[a] = <<>> \/ Len(it.box[a]) = 0 THEN <<>> ELSE <<it.box[a][1], it.box[a][2]>>]
OutCrop(it) ==
    LET bx == BoxOf(it)
    IN  IF CropRefused(it.F, bx) THEN [refused |-> TRUE, n |-> <<0, 0, 0>>, lo |-> <<0, 0, 0>>, copy |-> <<>>, ok |-> TRUE]
        ELSE LET C == CropCopy(it.F, bx)
             IN  [refused |-> FALSE, n |-> CropF(it.F, bx).n, lo |-> [a \in 1..3 |-> Aligned(it.F, bx, a)[1]],
                  copy |-> [k \in 1..Cardinality(DOMAIN C) |-> C[k - 1]], ok |-> CropOK(it.F, bx)]
OutReblock(it) ==
    IF ~ReblockSupported(it.F, 64) THEN [supported |-> FALSE, copy |-> <<>>, ok |-> TRUE]
    ELSE LET C == ReblockCopy(it.F, 64)
         IN  [supported |-> TRUE, copy |-> [k \in 1..Cardinality(DOMAIN C) |-> C[k - 1]],
              ok |-> IF Cardinality(DOMAIN C) <= 20000 THEN ReblockOK(it.F, 64) ELSE TRUE]      \* the big ones are checked on the bytes only
Out(it) == IF it.op = "crop" THEN OutCrop(it) ELSE OutReblock(it)
ASSUME JsonSerialize(IOEnv.VZ_OUT, [items |-> [k \in 1..Len(Items) |-> Out(Items[k])]])
VARIABLE x
Init == x = 0
Next == x' = x
Spec == Init /\ [][Next]_x
=============================================================================
