------------------------------ MODULE Gen_Api ------------------------------
(* Oracle mode: evaluates SgzApi.Ideal / NeededBlocks and SgzFormat addresses on the cases of a
   JSON file written by the harness and serialises the answers.  One TLC run per shard. *)
EXTENDS SgzReader, Json, IOUtils, TLC

Input == JsonDeserialize(IOEnv.VZ_IN)
Files == Input.files
Calls == Input.calls

SetToSeq(S) == LET RECURSIVE f(_)
                   f(T) == IF T = {} THEN <<>> ELSE LET m == CHOOSE x \in T : \A y \in T : x <= y
                                                    IN  <<m>> \o f(T \ {m})
               IN  f(S)

\* what the implementation-shaped model (SgzReader!Call) predicts for the call: outcome class and range reads
ModelOf(F, c) ==
    LET out == Call(F, c.op, c.a)
    IN  IF c.op \in {"gen_trace_header", "box_stepped"} THEN [kind |-> "unmodelled", reads |-> <<>>]
        ELSE IF out.kind = "raise" THEN [kind |-> out.exc, reads |-> <<>>]
        ELSE [kind |-> "value", reads |-> [r \in 1..Len(PartReads(out)) |-> <<PartReads(out)[r].off, PartReads(out)[r].len>>]]

OutCall(c) ==
    LET F == Files[c.f]
        o == Ideal(F, c.op, c.a)
    IN  [alts |-> o, needed |-> [k \in 1..Len(o) |-> SetToSeq(NeededBlocks(F, o[k]))],
         model |-> IF "model" \in DOMAIN c /\ c.model THEN ModelOf(F, c) ELSE [kind |-> "skipped", reads |-> <<>>]]

\* per file: geometry the format derives, and the address of every unit in raster order of the padded unit grid
OutFile(F) ==
    [ wellformed |-> WellFormed(F),
      p |-> P(F), nu |-> NU(F), nb |-> NB(F), ub |-> UB(F),
      data_blocks |-> DataBlocks(F), entry_bytes |-> EntryBytes(F), stride |-> FooterStride(F),
      array_offsets |-> [k \in 1..F.narr |-> ArrayOffset(F, k-1)],
      file_len |-> FileLen(F), min_file_len |-> MinFileLen(F),
      tracecount |-> TraceCount(F),
      unit_addr |-> [k \in 1..(NUa(F, 1)*NUa(F, 2)*NUa(F, 3)) |->
                        UnitAddr(F, <<(k-1) \div (NUa(F, 2)*NUa(F, 3)), ((k-1) \div NUa(F, 3)) % NUa(F, 2), (k-1) % NUa(F, 3)>>)],
      fields |-> HeaderFields ]

ASSUME JsonSerialize(IOEnv.VZ_OUT,
          [files |-> [k \in 1..Len(Files) |-> OutFile(Files[k])],
           calls |-> [k \in 1..Len(Calls) |-> OutCall(Calls[k])]])

VARIABLE x
Init == x = 0
Next == x' = x
Spec == Init /\ [][Next]_x
=============================================================================
