"""C09 2-D lines: trace order, headers and sample fidelity.

Model side: MC_WriterData (every small trace count / sample count x every (1, n, m) blockshape family: the trace-group producer
puts every unit where the format and the 2-D loaders look for it), MC_Ingest!PDetect (a source without line numbering, or with a
single inline or crossline, is a 2-D line with its traces in file order) and SgzApi!Ideal for the 2-D calls (Gen_Api oracle).
Binding: real 2-D SEG-Y files of the three detection variants, trace and sample counts on every residue of the blockshape, every
valid rate, are converted; every data slot is compared with Enc of the edge-extended section, every trace, TLC-evaluated window
(get_trace, read_subplane), header and emulator accessor with the two-dimensional ZFP image of the source / segyio on the source;
every volume-style read must be refused with the dimensionality error."""
import os
from fractions import Fraction as Fr

import numpy as np
import segyio

from .. import audit, codec, env, inputs, par, readcalls, session, sgzfile, tlc, writers
from ..tlc import NONE

FINISH = dict(
    level='model_checking',
    rule='sections: trace counts {2,3,4,5, b-1,b,b+1, 2b+1} and sample counts {2,5, m-1,m,m+1, 2m+3} for blockshapes (1,4,m), (1,8,m), (1,16,m), '
         '(1,64,m) at rates 1..32 (quick: seeded subset); detection variants: no numbering / single inline / single crossline; calls from '
         'readcalls (windows at and across group and block boundaries), expected selections from TLC (SgzApi!Ideal); non-trivial = distinct '
         '(variant, shape, rate, blockshape, call)',
    assumptions=['2-D rates are whole numbers of bits (a 4x4 float block cannot be coded in less)'],
    trusted=['zfpy', 'numpy', 'segyio', 'TLC'])

VOLUME_CALLS = [('read_inline', [0]), ('read_crossline', [0]), ('read_zslice', [0]), ('read_subvolume', [0, 1, 0, 1, 0, 1]), ('read_volume', []),
                ('read_correlated_diagonal', [0]), ('read_anticorrelated_diagonal', [0]), ('read_inline_number', [0]), ('read_crossline_number', [0]),
                ('read_zslice_coord', [0]), ('get_trace_by_coord', None)]


class Ref:
    """reference = the ZFP image of the SOURCE (not a decode of the file)"""
    select = sgzfile.RefFile.select

    def __init__(self, vol):
        self.vol = vol


def make(d, k, c, seed):
    nt, nz = c['shape']
    data = inputs.cube((nt, nz), seed + k)
    v = c['variant']
    hdrs = []
    for t in range(nt):
        h = {segyio.TraceField.CDP: t + 1, segyio.TraceField.CDP_X: 1000 + 10 * t, segyio.TraceField.offset: 3, segyio.TraceField.FieldRecord: 20000 + t * t}
        if k % 2:           # words that vary along the line but are 0 on its first trace (a counter from 0, an elevation of 0 at the line start)
            h[segyio.TraceField.ShotPoint], h[segyio.TraceField.ReceiverGroupElevation] = t, -5 * t
        if v == 'il':
            h[segyio.TraceField.INLINE_3D], h[segyio.TraceField.CROSSLINE_3D] = 7, (100 + 2 * t, -4 + 2 * t)[(k // 2) % 2]
        elif v == 'xl':
            h[segyio.TraceField.INLINE_3D], h[segyio.TraceField.CROSSLINE_3D] = (50 + t, -3 + t)[k % 2], (9, 0)[k % 2]       # (line numbers through 0 are ordinary)
        hdrs.append(h)
    sgy = os.path.join(d, f'l{k}.sgy')
    # first sample after, at, before time zero (a negative delay recording time); 2 ms or 4 ms sampling
    z0, dz = ((12.0, 2.0), (0.0, 4.0), (-100.0, 2.0), (-48.0, 4.0), (8.0, 0.5), (0.0, 2.5), (-6.0, 1.001))[k % 7]
    inputs.write_segy_traces(sgy, data, z0 + dz * np.arange(nz), hdrs)
    p = os.path.join(d, f'l{k}.sgz')
    writers.segy_to_sgz(sgy, p, writers.rate_arg(c['rate']), c['bs'], header_detection=c['mode'])
    return sgy, p, data


def plan(run):
    quick = run.tier == 'quick'
    rng = np.random.default_rng(run.seed)
    cases = []
    settings = [(8, (1, 4, -1)), (16, (1, 16, -1)), (4, None), (32, (1, 8, 128)), (1, (1, 64, -1)), (2, (1, 4, -1)), (32, (1, 4, 256)), (16, (1, 64, 32)),
                (8, (1, 256, 16)), (32, (1, 16, 64))]
    k = 0
    for rate, bs in settings:
        b1 = 16 if bs is None else bs[1]
        vox = int(32768 / Fr(rate))
        b2 = vox // b1 if (bs is None or bs[2] == -1) else bs[2]
        nts = sorted({2, 3, 4, 5, b1 - 1, b1, b1 + 1, 2 * b1 + 1} - {0, 1})
        nzs = sorted({2, 5, b2 - 1, b2, b2 + 1, 2 * b2 + 3} - {0, 1})
        nzs = [z for z in nzs if z <= (1100 if quick else 2200)]
        combos = [(a, z) for a in nts for z in nzs if a * z <= 40000]
        if quick:
            idx = rng.choice(len(combos), size=min(len(combos), 5), replace=False)
            combos = [combos[i] for i in sorted(idx)]
        for (nt, nz) in combos:
            cases.append({'shape': [nt, nz], 'rate': str(Fr(rate)), 'bs': list(bs) if bs else None, 'variant': ('zero', 'il', 'xl')[k % 3],
                          'mode': ('heuristic', 'thorough', 'exhaustive', 'heuristic')[k % 4]})
            k += 1
    return cases


def _worker(item):
    ci, c = item
    from seismic_zfp.read import SgzReader
    from seismic_zfp.utils import WrongDimensionalityError
    import seismic_zfp
    d = env.subdir(f'c09-{os.getpid()}')
    cc = dict(c, rate=Fr(c['rate']), bs=tuple(c['bs']) if c['bs'] else None)
    out = {}
    sgy = p = None
    try:
        sgy, p, data = make(d, ci, cc, par.G['seed'])
        nt, nz = c['shape']
        ideal = codec.ideal_volume(data, cc['rate'], 'edge')
        fc = session.FileCase(p)
        out['F'] = fc.F
        fc.attach(par.G['layouts'][layout_key(par.G['expected_F'][ci])])
        ok, bad, n = audit.data_slots_ok(fc, data[None], 'edge')
        out['slots'] = (ok, bad, n)
        keys = sgzfile.trace_keys()
        with segyio.open(sgy, strict=False) as s:
            truth = [[int(s.header[i][k]) for k in keys] for i in range(nt)]
            src_z = np.asarray(s.samples, dtype=np.float64)
        calls = par.G['calls'][ci]
        answers = par.G['answers'][ci]
        ref = Ref(ideal[None])
        bad_calls = []
        with env.quiet():
            with SgzReader(p) as r:
                out['meta'] = {'dim2': bool(r.is_2d), 'ntr': int(r.tracecount), 'z_ok': bool(np.allclose(np.asarray(r.zslices), src_z, rtol=0, atol=1e-9)),
                               'nz': int(r.n_samples), 'structured': bool(r.structured)}
                for (op, a), ans in zip(calls, answers):
                    o = readcalls.invoke(r, op, a)
                    okk, detail = readcalls.compare(o, ans['alts'], ref, header_of=lambda t: {k: v for k, v in zip(keys, truth[t])})
                    if not okk:
                        bad_calls.append((op, a, detail[:100]))
                hb = []
                b1 = fc.F['b'][1]
                some = sorted(set(range(min(nt, 12))) | {k * b1 + j for k in range(nt // b1 + 1) for j in (-1, 0, 1)} | {nt - 2, nt - 1})
                for i in [i for i in some if 0 <= i < nt]:
                    h = r.gen_trace_header(i)
                    if [int(h[segyio.TraceField(k)]) for k in keys] != truth[i]:
                        hb.append(i)
                    if not codec.same_bits(r.get_trace(i), ideal[i]):
                        bad_calls.append(('get_trace', [i], 'differs'))
                out['bad_headers'] = hb[:5]
                out['full'] = codec.same_bits(r.read_subplane(0, nt, 0, nz), ideal)
                refused = []
                for op, a in VOLUME_CALLS:
                    try:
                        if op == 'get_trace_by_coord':
                            continue
                        getattr(r, op)(*([float(r.zslices[0])] if op == 'read_zslice_coord' else a))
                        refused.append((op, 'returned'))
                    except WrongDimensionalityError:
                        pass
                    except BaseException as e:
                        if isinstance(e, (KeyboardInterrupt, SystemExit, MemoryError)):
                            raise
                        refused.append((op, type(e).__name__))
                out['not_refused'] = refused
            with seismic_zfp.open(p) as e:
                eb = []
                for i in sorted({0, nt // 2, nt - 1, -1}):
                    if not codec.same_bits(e.trace[i], ideal[i]):
                        eb.append(('trace', i))
                    if [int(e.header[i][segyio.TraceField(k)]) for k in keys] != truth[i]:
                        eb.append(('header', i))
                if len(e.trace) != nt or len(e.header) != nt:
                    eb.append(('len', len(e.trace)))
                # slices of the trace / header accessors, as Python slices of range(nt) (what segyio does on the source)
                for sl in (slice(None, None, -1), slice(nt - 1, None, -3), slice(1, nt - 1, 2), slice(min(5, nt - 1), min(4, nt - 2), -1), slice(None, 3),
                           slice(-2, None), slice(2, 2), slice(nt - 1, 0, -1)):
                    want = list(range(nt))[sl]
                    got = [np.array(x, copy=True) for x in e.trace[sl]]
                    if len(got) != len(want) or any(not codec.same_bits(g, ideal[w]) for g, w in zip(got, want)):
                        eb.append(('trace-slice', str(sl)))
                    goth = [dict(x) for x in e.header[sl]]
                    if len(goth) != len(want) or any([int(g[segyio.TraceField(k)]) for k in keys] != truth[w] for g, w in zip(goth, want)):
                        eb.append(('header-slice', str(sl)))
                for acc in ('iline', 'xline', 'depth_slice'):
                    try:
                        getattr(e, acc)[0]
                        eb.append((acc, 'returned'))
                    except WrongDimensionalityError:
                        pass
                    except BaseException as ex:
                        if isinstance(ex, (KeyboardInterrupt, SystemExit, MemoryError)):
                            raise
                        eb.append((acc, type(ex).__name__))
                out['bad_emu'] = eb
        out['bad_calls'] = bad_calls[:6]
        out['ncalls'] = len(calls)
    except BaseException as e:
        if isinstance(e, (KeyboardInterrupt, SystemExit, MemoryError)):
            raise
        out['error'] = f'{type(e).__name__}: {e}'
    finally:
        for q in (sgy, p):
            if q and os.path.exists(q):
                os.remove(q)
    return out


def layout_key(F):
    return (tuple(F['n']), tuple(F['b']), F['ub'], F['narr'], F['ntr'])


def expected_F(c, narr_guess=None):
    nt, nz = c['shape']
    rate = Fr(c['rate'])
    bs = c['bs'] or [1, 16, -1]
    vox = int(32768 / rate)
    b = [1, bs[1], vox // bs[1] if bs[2] == -1 else bs[2]]
    return {'dim': 2, 'n': [1, nt, nz], 'b': b, 'ub': codec.unit_bytes(rate, 2), 'hblk': 2, 'padfoot': True, 'narr': 0, 'ntr': nt,
            'il': {'s': 0, 'd': 0}, 'xl': {'s': 0, 'd': 0}, 'zs': {'s': 0, 'd': 2}, 'mask': []}


def run(run):
    run.mc('MC_WriterData', f'MC_WriterData_{run.tier}')
    run.mc('MC_Ingest', f'MC_Ingest_det_{run.tier}', timeout=3000)
    cases = plan(run)
    par.G['seed'] = run.seed
    session.fields()
    rng = np.random.default_rng(run.seed + 1)
    # calls and TLC answers are prepared from the descriptor the SETTINGS imply (truth), not from the written file
    Fs = [expected_F(c) for c in cases]
    calls_all, flat = [], []
    for fi, F in enumerate(Fs):
        cl = [x for x in readcalls.in_range_calls(F, rng, 36) if x[0] in ('read_subplane', 'get_trace')]
        calls_all.append(cl)
        flat += [(fi, op, a) for op, a in cl]

    class _FC:
        def __init__(self, F):
            self.F = F
    fcs = [_FC(F) for F in Fs]
    answers = session.eval_calls(fcs, flat, run, model=False)
    per = [[] for _ in Fs]
    for (fi, op, a), ans in zip(flat, answers):
        per[fi].append(ans)
    par.G['calls'], par.G['answers'] = calls_all, per
    # unit addresses for every descriptor (the written file's header must describe the same descriptor; narr is irrelevant for addresses)
    lay = tlc.oracle('Gen_Api', {'files': Fs, 'calls': []})
    run.add_tlc({'distinct': 0, 'generated': lay['_tlc']['generated'], 'wall_s': lay['_tlc']['wall_s']}, 'Gen_Api(layout)')
    par.G['layouts'] = {layout_key(F): L for F, L in zip(Fs, lay['files'])}
    par.G['expected_F'] = Fs
    res = par.pmap(_worker_wrap, list(enumerate(cases)), chunksize=2)
    for c, F, r in zip(cases, Fs, res):
        run.case(c)
        if isinstance(r, par.Crash) or 'error' in r:
            run.fail('C09.converts', c, str(r if isinstance(r, par.Crash) else r['error']), 'a readable 2-D file')
            continue
        m = r['meta']
        run.check(m['dim2'] and r['F']['b'] == F['b'] and r['F']['ub'] == F['ub'], 'C09.is-2d-with-settings', c, {'b': r['F']['b'], 'dim2': m['dim2']}, F['b'])
        run.check(m['ntr'] == c['shape'][0] and m['nz'] == c['shape'][1] and m['z_ok'], 'C09.tracecount-sample-axis', c, m, c['shape'])
        run.check(r['slots'][0], 'C09.data-slot-bytes', c, {'first_bad_unit': r['slots'][1]}, 'Enc of the edge-extended section unit')
        run.check(r['full'], 'C09.section-bitwise', c, None, '2-D ZFP image of the edge-extended section')
        run.check(not r['bad_calls'], 'C09.trace-and-window', c, r['bad_calls'], f'{r["ncalls"]} TLC-evaluated selections of the ideal section')
        run.check(not r['bad_headers'], 'C09.header-i-is-source-header-i', c, r['bad_headers'], [])
        run.check(not r['not_refused'], 'C09.volume-reads-refused', c, r['not_refused'], 'WrongDimensionalityError')
        run.check(not r['bad_emu'], 'C09.emulator', c, r['bad_emu'], [])
        run.traces_validated += 1 if r['slots'][0] else 0


def _worker_wrap(item):
    ci, c = item
    r = _worker(item)
    return r


def replay(run, rep):
    c = rep['case']
    par.G['seed'] = run.seed
    cases = plan(run)
    ci = [i for i, x in enumerate(cases) if x == c]
    k = ci[0] if ci else 0
    rng = np.random.default_rng(run.seed + 1)
    F = expected_F(c)
    # regenerate the same call list as in run(): the generator is consumed case by case in order
    calls = None
    for i, x in enumerate(cases[:k + 1] if ci else [c]):
        cl = [y for y in readcalls.in_range_calls(expected_F(x), rng, 36) if y[0] in ('read_subplane', 'get_trace')]
        calls = cl

    class _FC:
        def __init__(self, F):
            self.F = F
    answers = session.eval_calls([_FC(F)], [(0, op, a) for op, a in calls], run, model=False)
    par.G['calls'], par.G['answers'] = {k: calls}, {k: answers}
    lay = tlc.oracle('Gen_Api', {'files': [F], 'calls': []})
    par.G['layouts'] = {layout_key(F): lay['files'][0]}
    par.G['expected_F'] = {k: F}
    session.fields()
    r = _worker((k, c))
    if 'error' in r:
        run.fail('C09.converts', c, r['error'], None)
        return
    m = r['meta']
    run.check(m['dim2'], 'C09.is-2d-with-settings', c, m, None)
    run.check(m['ntr'] == c['shape'][0] and m['nz'] == c['shape'][1] and m['z_ok'], 'C09.tracecount-sample-axis', c, m, None)
    run.check(r['slots'][0], 'C09.data-slot-bytes', c, r['slots'][1], None)
    run.check(r['full'], 'C09.section-bitwise', c, None, None)
    run.check(not r['bad_calls'], 'C09.trace-and-window', c, r['bad_calls'], None)
    run.check(not r['bad_headers'], 'C09.header-i-is-source-header-i', c, r['bad_headers'], None)
    run.check(not r['not_refused'], 'C09.volume-reads-refused', c, r['not_refused'], None)
    run.check(not r['bad_emu'], 'C09.emulator', c, r['bad_emu'], None)
