#!/venv/bin/python
"""Confirm a seeded change and run the registered check(s) against it.

  tools/seed.py <name> <property> [--from DIR] [--checks C01,C03] [--tier quick]

<name> is the directory under /verif/seeded (e.g. C16 or C16-b).  With --from, patch.diff / demo.py / meta.json are first
copied from DIR.  Steps: (1) in a scratch worktree of /repo (removed afterwards): the repository's tests give the same
pass/fail sets with and without the patch, the demonstration exits 1 with it and 0 without it; (2) the patch is applied to
/repo itself, the quick check of the property (and of --checks) is run, the patch is undone straight afterwards.
Results are recorded in /verif/seeded/<name>/meta.json under "confirmed" and "detection"."""
import argparse
import json
import os
import re
import shutil
import subprocess
import sys
import time

V = '/verif'
PY = '/venv/bin/python'


def sh(cmd, cwd=None, timeout=3600, env=None):
    p = subprocess.run(cmd, shell=True, cwd=cwd, stdout=subprocess.PIPE, stderr=subprocess.STDOUT, text=True, timeout=timeout, env=env)
    return p.returncode, p.stdout


def tests(wt):
    e = dict(os.environ, PYTHONPATH=wt)
    rc, out = sh(f'{PY} -m pytest -q -p no:cacheprovider --timeout=900 -rf 2>&1', cwd=wt, env=e)
    failed = sorted(set(re.findall(r'^FAILED (\S+)', out, re.M)))
    summ = [l for l in out.splitlines() if re.search(r'\d+ passed', l)]
    return failed, (summ[-1].strip() if summ else out[-300:])


def main():
    ap = argparse.ArgumentParser()
    ap.add_argument('name')
    ap.add_argument('prop')
    ap.add_argument('--from', dest='src')
    ap.add_argument('--checks', default='')
    ap.add_argument('--tier', default='quick')
    ap.add_argument('--only', action='store_true', help='run only the checks named by --checks (the check of the property itself has been run before)')
    ap.add_argument('--skip-confirm', action='store_true')
    ap.add_argument('--light', action='store_true', help='confirm with the demonstration only (exit 0 without / 1 with the patch); the test-suite comparison is taken from the author of the change')
    a = ap.parse_args()
    d = os.path.join(V, 'seeded', a.name)
    os.makedirs(d, exist_ok=True)
    if a.src:
        for f in ('patch.diff', 'demo.py', 'meta.json'):
            shutil.copy(os.path.join(a.src, f), os.path.join(d, f))
    meta = json.load(open(os.path.join(d, 'meta.json')))
    meta['property'] = a.prop
    patch = os.path.join(d, 'patch.diff')
    if sh('git -C /repo status --porcelain')[1].strip():
        print('/repo is not clean'); return 2
    if not a.skip_confirm:
        wt = f'/tmp/sc/{a.name}'
        sh(f'git -C /repo worktree remove --force {wt}')
        os.makedirs('/tmp/sc', exist_ok=True)
        rc, out = sh(f'git -C /repo worktree add --detach {wt} HEAD')
        if rc:
            print(out); return 2
        try:
            base_failed, base_sum = ([], 'not run (--light)') if a.light else tests(wt)
            rc0, out0 = sh(f'{PY} {d}/demo.py {wt}', cwd='/tmp/sc', timeout=600)
            rc, out = sh(f'git apply {patch}', cwd=wt)
            if rc:
                print('patch does not apply:', out); return 2
            mut_failed, mut_sum = ([], meta.get('tests_after', 'not run (--light)')) if a.light else tests(wt)
            rc1, out1 = sh(f'{PY} {d}/demo.py {wt}', cwd='/tmp/sc', timeout=600)
            meta['confirmed'] = {'tests_without': base_sum, 'tests_with': mut_sum, 'same_failing_set': base_failed == mut_failed,
                                 'demo_exit_without': rc0, 'demo_exit_with': rc1, 'demo_output_with': out1[-600:],
                                 'ok': base_failed == mut_failed and rc0 == 0 and rc1 == 1,
                                 'ran': [f'git worktree add {wt}; pytest; demo.py; git apply patch.diff; pytest; demo.py']}
            print('confirm:', json.dumps({k: v for k, v in meta['confirmed'].items() if k not in ('demo_output_with', 'ran')}))
        finally:
            sh(f'git -C /repo worktree remove --force {wt}')
            shutil.rmtree(wt, ignore_errors=True)
    checks = ([] if a.only else [a.prop]) + [c for c in a.checks.split(',') if c and (a.only or c != a.prop)]
    rc, out = sh(f'git -C /repo apply {patch}')
    if rc:
        print('cannot apply to /repo', out); return 2
    det = meta.setdefault('detection', {})
    saved = {}
    for c in checks:        # the evidence files must keep describing the unchanged tree
        ev = os.path.join(V, 'evidence', c + '.json')
        if os.path.exists(ev):
            saved[ev] = open(ev).read()
    try:
        for c in checks:
            t = time.time()
            rc, out = sh(f'./check {c} --tier {a.tier}', cwd=V, timeout=7200)
            viol = [l for l in out.splitlines() if l.startswith('VIOLATION')]
            clauses = sorted(set(re.findall(r'violations of (\S+):', out)))
            det[f'{c}:{a.tier}'] = {'exit': rc, 'violation_lines': len(viol), 'clauses': clauses[:12], 'wall_s': round(time.time() - t, 1),
                                   'tail': out.strip().splitlines()[-1][:300] if out.strip() else ''}
            print(f'{a.name}: check {c} {a.tier}: exit={rc} violations={len(viol)} clauses={clauses[:6]}')
    finally:
        for ev, txt in saved.items():
            open(ev, 'w').write(txt)
        sh('git -C /repo checkout -- .')
        left = sh('git -C /repo status --porcelain')[1].strip()
        if left:
            print('WARNING /repo not clean after undo:', left)
    json.dump(meta, open(os.path.join(d, 'meta.json'), 'w'), indent=1)
    return 0


if __name__ == '__main__':
    sys.exit(main())
