----------------------------- MODULE Trace_Writer -----------------------------
(* Trace validation: every event sequence recorded from a real conversion (free running threads, forced or random
   cooperative schedules) must be a behaviour of SgzWriter.  One TLC run validates all traces of one configuration
   (N, Cap, NFooter, Patch are cfg constants); tr selects the trace, l the next line.  Events carry the action name
   the harness derived from the raw record plus every logged field, and each field is bound to the model state. *)
EXTENDS SgzWriter, Json, IOUtils, TLC

Traces == JsonDeserialize(IOEnv.VZ_IN).traces
VARIABLES tr, l
tvars == <<vars, tr, l>>

E == Traces[tr][l]
Is(name) == l <= Len(Traces[tr]) /\ E.a = name /\ l' = l + 1 /\ UNCHANGED tr

TInit == Init /\ tr \in 1..Len(Traces) /\ l = 1
TNext ==
    \/ Is("MStartC") /\ MStartC
    \/ Is("MStartW") /\ MStartW
    \/ Is("MPut")    /\ MPut /\ cq'[Len(cq')] = E.item /\ Len(cq') = E.qlen /\ ucq' = E.unf
    \/ Is("MJoinC")  /\ MJoinC
    \/ Is("MJoinW")  /\ MJoinW
    \/ Is("MFlush")  /\ MFlush
    \/ Is("MCount")  /\ MCount
    \/ Is("MTable")  /\ MTable
    \/ Is("MFooter") /\ MFooter
    \/ Is("MHash")   /\ MHash
    \/ Is("MReturn") /\ MReturn
    \/ Is("CGet")    /\ CGet /\ heldC' = E.item /\ Len(cq') = E.qlen
    \/ Is("CPut")    /\ CPut /\ heldC = E.item /\ Len(wq') = E.qlen /\ uwq' = E.unf
    \/ Is("CDone")   /\ CDone /\ ucq' = E.unf
    \/ Is("WHeader") /\ WHeader
    \/ Is("WGet")    /\ WGet /\ heldW' = E.item /\ Len(wq') = E.qlen
    \/ Is("WWrite")  /\ WWrite /\ heldW = E.item
    \/ Is("WDone")   /\ WDone /\ uwq' = E.unf
TSpec == TInit /\ [][TNext]_tvars

\* printed for every trace at the point where no further line can be consumed: "END tr l len"
End == (~ENABLED TNext) => PrintT(<<"END", tr, l - 1, Len(Traces[tr]), pcM>>)
\* the properties of SgzWriter are evaluated on every state of every validated trace
Safe == FileIsSequential /\ DataPrefix /\ TypeOK
=============================================================================
