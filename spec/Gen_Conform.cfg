CONSTANT DiskBlockBytes = 4096
CONSTANT RMajor = 4
CONSTANT RMinor = 1024
CONSTANT RPatch = 1024
SPECIFICATION Spec
