"""C19 configuration soundness: every (bits_per_voxel, blockshape) setting is rejected before an output exists or yields
a conformant, faithful file; every valid combination is accepted."""
import itertools
import os
from fractions import Fraction as Fr

import numpy as np
import segyio

from .. import audit, codec, env, inputs, par, session, tlc, writers

FINISH = dict(
    level='model_checking',
    rule='TLC checks SgzConfig!Resolve (the code\'s resolution + validation, exact rationals) on the complete grid: accepted => valid and '
         'what was given is kept, valid (fully given or one parameter free) => accepted as itself; the real define_blockshape_2d/3d are '
         'compared with the model on grid points (TLC oracle) and every accepted point of the replay set is converted for real on a tiny '
         'cube/section and read back bitwise; rejected points must leave no output; non-trivial = distinct (dim, bits, blockshape)',
    assumptions=['2-D rates below 1 cannot be faithful (a 4x4 float block needs >= 9 bits) and need not be accepted'],
    trusted=['zfpy', 'numpy', 'segyio', 'TLC'])

RATES = [Fr(1, 4), Fr(1, 2), Fr(1), Fr(2), Fr(4), Fr(8), Fr(16), Fr(32)]


def bits_forms(r):
    """the spellings of a rate: number, string, negative reciprocal"""
    out = []
    if r.denominator == 1:
        out += [(False, int(r), 1), (True, int(r), 1)]
    else:
        out += [(False, r.numerator, r.denominator), (True, r.numerator, r.denominator), (False, -r.denominator, 1), (True, -r.denominator, 1)]
    return out


def py_bits(str_, n, d):
    v = n if d == 1 else n / d
    return str(v) if str_ else v


def grid(run):
    rng = np.random.default_rng(run.seed)
    quick = run.tier == 'quick'
    pts = []
    p2 = [4 << k for k in range(12)]
    # every valid combination: fully given, and with each parameter in turn left free
    for dim in (3, 2):
        for r in RATES:
            vox = int(32768 / r)
            shapes = []
            if dim == 3:
                for a in p2:
                    for b in p2:
                        if vox % (a * b) == 0 and vox // (a * b) >= 4:
                            shapes.append((a, b, vox // (a * b)))
            else:
                for b in p2:
                    if vox % b == 0 and vox // b >= 4:
                        shapes.append((1, b, vox // b))
            sub = dim == 2 and r < 1     # ZFP needs >= 9 bits for a 4x4 float block: such a setting cannot be faithful
            for s in shapes:
                for (st, n, d) in bits_forms(r):
                    if sub:
                        pts.append((dim, st, n, d, s, 'grid-2d-subunit-rate'))
                        continue
                    pts.append((dim, st, n, d, s, 'valid'))
                    for k in range(3):
                        if dim == 2 and k == 0:
                            continue
                        t = list(s)
                        t[k] = -1
                        pts.append((dim, st, n, d, tuple(t), 'valid-free'))
                pts.append((dim, False, -1, 1, s, 'grid-2d-subunit-rate' if sub else 'valid-rate-free'))
                pts.append((dim, True, -1, 1, s, 'grid-2d-subunit-rate' if sub else 'valid-rate-free'))
    # settings valid for the OTHER dimensionality: a (1, b, c) block given to (or resolved by) the 3-D entry point, a 3-D block given to
    # the 2-D entry point
    for r in RATES:
        vox = int(32768 / r)
        for b in p2:
            if vox % b == 0 and vox // b >= 4:
                for (st, n, d) in bits_forms(r):
                    pts.append((3, st, n, d, (1, b, vox // b), 'near-miss'))
                    pts.append((3, st, n, d, (-1, b, vox // b), 'near-miss'))
                pts.append((3, False, -1, 1, (1, b, vox // b), 'near-miss'))
        for a, b in ((4, 4), (8, 8), (4, 16)):
            if vox % (a * b) == 0 and vox // (a * b) >= 4:
                for (st, n, d) in bits_forms(r)[:1]:
                    pts.append((2, st, n, d, (a, b, vox // (a * b)), 'near-miss'))
    # near misses and the rest of the grid
    vals = [-1, 1, 2, 3, 4, 5, 6, 7, 8, 12, 16, 24, 32, 64, 128, 256, 512, 1024, 2048, 4096, 8192]
    bitsv = [(st, n, 1) for st in (False, True) for n in list(range(-16, 0)) + list(range(1, 33))] + \
            [(st, 1, d) for st in (False, True) for d in (2, 4)] + [(False, 1, 8), (False, 3, 2)]
    n_rand = 4000 if quick else 120000
    for _ in range(n_rand):
        dim = int(rng.choice([3, 3, 2]))
        st, n, d = bitsv[int(rng.integers(len(bitsv)))]
        s = tuple(int(vals[int(rng.integers(len(vals)))]) for _ in range(3))
        if dim == 2 and rng.random() < 0.7:
            s = (1,) + s[1:]
        prod = 1
        for v in s:
            prod *= max(v, 1)
        if prod > 131072:
            continue
        pts.append((dim, st, n, d, s, 'grid'))
    # one-off perturbations of valid points
    base = [p for p in pts if p[5] == 'valid']
    for i in rng.choice(len(base), size=min(len(base), 300 if quick else 3000), replace=False):
        dim, st, n, d, s, _ = base[int(i)]
        k = int(rng.integers(3))
        t = list(s)
        t[k] = int(rng.choice([s[k] * 2, max(1, s[k] // 2), s[k] + 1, s[k] - 1, 3, 1, 2]))
        pts.append((dim, st, n, d, tuple(t), 'near-miss'))
        pts.append((dim, st, n * 2 if d == 1 and n > 0 else n, d, s, 'near-miss'))
    seen, out = set(), []
    for p in pts:
        if p[:5] not in seen:
            seen.add(p[:5])
            out.append(p)
    return out


def _resolve(item):
    from seismic_zfp.utils import define_blockshape_2d, define_blockshape_3d
    dim, st, n, d, s, kind = item
    try:
        with env.quiet():
            r, shape = (define_blockshape_2d if dim == 2 else define_blockshape_3d)(py_bits(st, n, d), s)
        fr = Fr(r).limit_denominator(64)
        return ('accept', [fr.numerator, fr.denominator], [int(x) for x in shape])
    except (ValueError, AssertionError, ZeroDivisionError, TypeError, OverflowError) as e:
        return ('reject', type(e).__name__)


def _convert(item):
    """a real conversion with the setting on a tiny input; -> dict"""
    dim, st, n, d, s, kind = item
    dd = env.subdir(f'c19-{os.getpid()}')
    p = os.path.join(dd, 'o.sgz')
    if os.path.exists(p):
        os.remove(p)
    seed = par.G['seed']
    # every other point: the output path already holds an earlier result, which a refused request must not touch
    marker = b'earlier output ' * 40 if (n + d + sum(s)) % 2 == 0 else None
    if marker is not None:
        with open(p, 'wb') as f:
            f.write(marker)
    try:
        if dim == 3:
            # asymmetric extents whose padded products differ when two blockshape entries are exchanged
            cube = inputs.cube((3, 70, 5) if max(s[0], s[1]) >= 64 else (5, 9, 7), seed)
            writers.numpy_to_sgz(p, cube, py_bits(st, n, d), s)
            src3 = cube
        else:
            # traces longer than a sample block for the small block lengths (windows that start in a later block)
            bz2 = s[2]
            if s[2] == -1 and n > 0 and s[0] > 0 and s[1] > 0:      # the free sample length follows from the rate: 32768 bits per block
                bz2 = (32768 * d // n) // (s[0] * s[1])
            nz2 = (bz2 + bz2 // 2 + 3 if bz2 >= 150 else 150) if 4 <= bz2 <= 1024 else 7
            data = inputs.cube((6, nz2), seed)
            sgy = os.path.join(dd, f'l{nz2}.sgy')
            if not os.path.exists(sgy):
                inputs.write_segy_traces(sgy, data, np.arange(nz2) * 4.0, [{segyio.TraceField.CDP: t + 1} for t in range(6)])
            writers.segy_to_sgz(sgy, p, py_bits(st, n, d), s)
            src3 = data[None]
    except BaseException as e:
        if isinstance(e, (KeyboardInterrupt, SystemExit, MemoryError)):
            raise
        if marker is None:
            left = os.path.exists(p)            # an empty file is an output too
        else:
            with open(p, 'rb') as f:
                left = f.read() != marker
        if os.path.exists(p):
            os.remove(p)
        return {'outcome': 'raise', 'exc': type(e).__name__, 'output_left': left}
    try:
        F, meta = session.sgzfile.descriptor(p, session.fields())
        ok, shp = audit.readback_ok(p, src3, meta['rate'], dim=dim)
        from . import c03
        _, _, H = c03.parse(p)
        hdr_ok = True
        if dim == 3:        # the default inline/crossline arrays are found where the header says the footer is
            from seismic_zfp.read import SgzReader
            with env.quiet():
                with SgzReader(p) as r:
                    last = r.gen_trace_header(src3.shape[0] * src3.shape[1] - 1)
                    hdr_ok = (int(last[segyio.TraceField.INLINE_3D]), int(last[segyio.TraceField.CROSSLINE_3D])) == (src3.shape[0] - 1, src3.shape[1] - 1)
                    # the other access paths agree with the volume (every trace; first, middle and last line each way; one z-slice)
                    vol = r.read_volume()
                    ni_, nx_, nz_ = vol.shape
                    paths = all(np.array_equal(r.get_trace(t), vol[t // nx_, t % nx_]) for t in range(ni_ * nx_))
                    paths = paths and all(np.array_equal(r.read_inline(i), vol[i]) for i in {0, ni_ // 2, ni_ - 1})
                    paths = paths and all(np.array_equal(r.read_crossline(x), vol[:, x]) for x in {0, nx_ // 2, nx_ - 1})
                    paths = paths and np.array_equal(r.read_zslice(nz_ - 1), vol[:, :, nz_ - 1])
                    ok = ok and paths
        if dim == 2:            # whole traces and windows (starting in the first and in a later sample block) agree with the section
            from seismic_zfp.read import SgzReader
            with env.quiet():
                with SgzReader(p) as r:
                    sec = r.read_subplane(0, r.tracecount, 0, r.n_samples)
                    nt_, nz_ = sec.shape
                    bz = int(r.blockshape[2])
                    paths = all(np.array_equal(r.get_trace(t), sec[t]) for t in range(nt_))
                    for lo, hi in ((0, min(nz_, 5)), (1, nz_), (bz, nz_), (bz + 1, min(nz_, bz + 9)), (2 * bz, nz_), (nz_ - 3, nz_)):
                        if 0 <= lo < hi <= nz_:
                            paths = paths and np.array_equal(r.get_trace(nt_ - 1, lo, hi), sec[nt_ - 1, lo:hi])
                            paths = paths and np.array_equal(r.read_subplane(1, nt_, lo, hi), sec[1:nt_, lo:hi])
                    ok = ok and paths
        return {'outcome': 'file', 'faithful': bool(ok), 'rate': str(meta['rate']), 'b': F['b'], 'H': H, 'n': list(src3.shape), 'headers_ok': hdr_ok}
    except BaseException as e:
        if isinstance(e, (KeyboardInterrupt, SystemExit, MemoryError)):
            raise
        return {'outcome': 'file', 'faithful': False, 'error': f'{type(e).__name__}: {e}'}
    finally:
        if os.path.exists(p):
            os.remove(p)


def run(run):
    quick = run.tier == 'quick'
    run.mc('MC_Config', f'MC_Config_{run.tier}')
    session.fields()
    pts = grid(run)
    # the model's answer for every point (TLC oracle), the real function's answer for every point
    model = tlc.oracle('Gen_Config', {'items': [{'dim': p[0], 'str': p[1], 'n': p[2], 'd': p[3], 's': list(p[4])} for p in pts]}, key='items',
                       shards=16)
    run.add_tlc({'distinct': 0, 'generated': model['_tlc']['generated'], 'wall_s': model['_tlc']['wall_s']}, 'Gen_Config')
    real = par.pmap(_resolve, pts)
    todo = []
    for p, m, r in zip(pts, model['items'], real):
        dim, st, n, d, s, kind = p
        case = {'dim': dim, 'bits': py_bits(st, n, d) if not st else repr(py_bits(st, n, d)), 'blockshape': list(s), 'kind': kind}
        run.case(case)
        if isinstance(r, par.Crash):
            run.fail('C19.resolve', case, str(r), 'an answer')
            continue
        # code -> spec: the implementation-shaped model predicts the real function (drift only)
        same = (m['ok'] and r[0] == 'accept' and list(m['rate']) == r[1] and list(m['shape']) == r[2]) or (not m['ok'] and r[0] == 'reject')
        if same:
            run.traces_validated += 1
        else:
            run.drift(f'{case}: model {m} real {r}')
        # property level (expectation from Valid, not from the model of the code)
        if kind.startswith('valid'):
            run.check(r[0] == 'accept', 'C19.valid-accepted', case, r, 'accepted')
        if r[0] == 'accept':
            fr = Fr(r[1][0], r[1][1])
            valid = fr in RATES and all(x >= 4 and x & (x - 1) == 0 for x in r[2][1:]) and \
                ((dim == 2 and r[2][0] == 1 and fr >= 1) or (dim == 3 and r[2][0] >= 4 and r[2][0] & (r[2][0] - 1) == 0)) and \
                fr * r[2][0] * r[2][1] * r[2][2] == 32768
            kept = all(a == -1 or a == b for a, b in zip(s, r[2]))
            run.check(valid and kept, 'C19.accepted-is-valid', case, r, 'a valid combination that keeps what was given')
            todo.append(p)
        elif kind in ('near-miss',) or (kind == 'grid' and len(todo) % 7 == 0):
            todo.append(p)
    # real conversions: accepted points (a seeded subset in quick) and rejected near misses
    rng = np.random.default_rng(run.seed + 1)
    if quick and len(todo) > 900:
        keep = set(rng.choice(len(todo), size=900, replace=False).tolist())
        todo = [t for i, t in enumerate(todo) if i in keep]
    par.G['seed'] = run.seed
    conv = par.pmap(_convert, todo, chunksize=4)
    # accepted => the output passes C03's conformance conjuncts (TLC, Gen_Conform) for the SOURCE extents and the setting as the
    # model resolves it
    from . import c03
    mres = {tuple(pp[:4]) + (tuple(pp[4]),): mm for pp, mm in zip(pts, model['items'])}
    citems, cidx = [], {}
    for k, (p, c) in enumerate(zip(todo, conv)):
        m = mres.get(tuple(p[:4]) + (tuple(p[4]),))
        if isinstance(c, par.Crash) or c['outcome'] != 'file' or 'H' not in c or not m or not m['ok']:
            continue
        dim = p[0]
        rate = Fr(m['rate'][0], m['rate'][1])
        if dim == 2 and rate < 1:
            continue
        nn = c['n']
        T = c03.truth(dim, nn, list(m['shape']), rate, nn[1] if dim == 2 else nn[0] * nn[1], z0=0, dz_us=4000, source_format=20 if dim == 3 else 0)
        T['F']['narr'] = 0
        cidx[k] = len(citems)
        citems.append({'T': T, 'H': c['H']})
    cout = tlc.oracle('Gen_Conform', {'items': citems}, key='items') if citems else {'items': [], '_tlc': {'generated': 0, 'wall_s': 0}}
    run.add_tlc({'distinct': 0, 'generated': cout['_tlc']['generated'], 'wall_s': cout['_tlc']['wall_s']}, 'Gen_Conform')
    NAMES = ('wellformed', 'n_samples', 'n_xlines', 'n_ilines', 'bits_per_voxel', 'blockshape', 'data_blocks', 'entry_bytes', 'tracecount', 'file_length')
    for k, (p, c) in enumerate(zip(todo, conv)):
        dim, st, n, d, s, kind = p
        case = {'dim': dim, 'bits': py_bits(st, n, d) if not st else repr(py_bits(st, n, d)), 'blockshape': list(s), 'kind': kind, 'stage': 'convert'}
        run.case(case)
        if isinstance(c, par.Crash):
            run.fail('C19.reject-or-faithful', case, str(c), 'raise or a faithful file')
            continue
        if c['outcome'] == 'raise':
            run.check(not c['output_left'], 'C19.reject-leaves-no-output', case, c, 'no output file')
            if kind.startswith('valid'):
                run.fail('C19.valid-accepted', case, c, 'a file')
        else:
            cc = {kk: vv for kk, vv in c.items() if kk != 'H'}
            run.check(c['faithful'], 'C19.reject-or-faithful', case, cc, 'a file that reads back bitwise')
            if 'headers_ok' in c:
                run.check(c['headers_ok'], 'C19.conformant[headers-readable]', case, cc, 'the stored inline/crossline arrays at the footer offset')
            if k in cidx:
                failed = [f[0] for f in cout['items'][cidx[k]]['failed']]
                for name in NAMES:
                    run.check(name not in failed, f'C19.conformant[{name}]', case, {x: c['H'].get(x) for x in (name, 'file_len', 'data_blocks') if x in c['H']},
                              'SgzFormat conformance for the source extents and the resolved setting')


def replay(run, rep):
    c = rep['case']
    b = c['bits']
    st = isinstance(b, str) and b.startswith("'")
    v = Fr(b.strip("'")) if isinstance(b, str) else Fr(b).limit_denominator(64)
    item = (c['dim'], st, v.numerator, v.denominator, tuple(c['blockshape']), c['kind'])
    session.fields()
    par.G['seed'] = run.seed
    r = _resolve(item)
    if rep['clause'] == 'C19.valid-accepted':
        run.check(r[0] == 'accept', rep['clause'], c, r, None)
    cv = _convert(item)
    if cv['outcome'] == 'raise':
        run.check(not cv['output_left'], 'C19.reject-leaves-no-output', c, cv, None)
    else:
        run.check(cv['faithful'], 'C19.reject-or-faithful', c, {kk: vv for kk, vv in cv.items() if kk != 'H'}, None)
        run.check(cv.get('headers_ok', True), 'C19.conformant[headers-readable]', c, None, None)
        if rep['clause'].startswith('C19.conformant[') and 'H' in cv:
            from . import c03
            m = tlc.oracle('Gen_Config', {'items': [{'dim': item[0], 'str': item[1], 'n': item[2], 'd': item[3], 's': list(item[4])}]}, key='items')['items'][0]
            nn = cv['n']
            T = c03.truth(item[0], nn, list(m['shape']), Fr(m['rate'][0], m['rate'][1]), nn[1] if item[0] == 2 else nn[0] * nn[1], z0=0, dz_us=4000,
                          source_format=20 if item[0] == 3 else 0)
            o = tlc.oracle('Gen_Conform', {'items': [{'T': T, 'H': cv['H']}]}, key='items')['items'][0]
            name = rep['clause'][len('C19.conformant['):-1]
            run.check(name not in [f[0] for f in o['failed']], rep['clause'], c, None, None)
