CONSTANT W = 5
CONSTANT GBug = "none"
CONSTANT MaxCount = 5
SPECIFICATION Spec
INVARIANT PPreserved
INVARIANT PCrop
INVARIANT PCrop2
CHECK_DEADLOCK FALSE
