#!/venv/bin/python
"""Regenerates /verif/MANIFEST.json from the table below (single source of truth)."""
import json, os, subprocess
V = os.path.dirname(os.path.dirname(os.path.abspath(__file__)))
props = [json.loads(l) for l in open(os.path.join(V, 'properties.jsonl'))]
CHECKS = {
 'C02': dict(technique='TLC model checking of reader-vs-API semantics (SgzReader vs SgzApi) + replay of TLC-evaluated selections/addresses on the real readers',
             text='TLC exhaustively checks, for every small geometry/layout and every argument tuple on each residue class, that the reader as the code does it (SgzReader!Call, unit-granular provenance) equals the API meaning (SgzApi!Ideal) over the format (SgzFormat!UnitAtOff); the binding replays TLC-evaluated selections on every fixture and freshly written file through every public read path and compares bitwise with a volume decoded unit by unit from TLC-emitted addresses; the model-predicted outcome class is validated per call.',
             note='trusts zfpy/numpy/TLC; sample values are sampled (seeded), the data-flow is value independent; VDS/ZGY fixtures only', ref='7/C02'),
 'C07': dict(technique='TLC model checking of I/O proportionality (SgzReader!IoProportional) + trace validation of recorded range reads against the model',
             text='TLC proves on all small geometries that the modelled range reads touch exactly SgzApi!NeededBlocks, are disjoint and stay inside the data section; every real call is run on counting local/blob backends and its recorded (offset,len) trace is (a) compared with the read sequence the model predicts for the real file (code->spec validation) and (b) judged by the property-level predicates with TLC-computed needed blocks; open/preload/header costs likewise.',
             note='a block counts as touched if any byte is fetched; mask reads of irregular files are metadata', ref='7/C07'),
 'C14': dict(technique='TLC model checking of bounds safety (SgzReader!Call vs SgzApi!Ideal on out-of-range tuples) + replay on files with distinguishable padding',
             text='TLC enumerates every argument tuple with a component outside its range (just outside, far, negative, inside padding, empty, reversed) on all small geometries and checks that the modelled dispatch raises or yields only the real item Python indexing denotes; the same tuple families are replayed on real files whose padding decodes to values found nowhere in the real volume.',
             note='an empty array for an empty window and a clipped window are accepted (real samples only)', ref='7/C14'),
}
checks = []
for pid, c in CHECKS.items():
    checks.append({
        'property_id': pid,
        'quick_cmd': f'./check {pid} --tier quick',
        'thorough_cmd': f'./check {pid} --tier thorough',
        'evidence_file': f'/verif/evidence/{pid}.json',
        'replay_cmd_template': f'./check {pid} --replay {{path}}',
        'engine': 'tlc+replay',
        'level_claimed': {'category': 'model_checking', 'text': c['text'], 'design_ref': c['ref']},
        'level_note': c['note'],
        'technique': c['technique'],
    })
fixes = subprocess.check_output(['git', '-C', '/repo', 'log', '--format=%h %s', '45bcf96..HEAD'], text=True).strip().splitlines()
m = {
 'version': 1,
 'setup_cmd': './setup.sh',
 'hooks': {'guard': 'SEISMIC_ZFP_VERIF', 'enable': 'no in-repo hook is needed: checks observe the code from outside (file-like backends, module-level Queue/Thread/open seams); the guard name is reserved',
           'baseline_off_cmd': 'cd /repo && /venv/bin/python -m pytest -ra -q -p no:cacheprovider --timeout=900 --continue-on-collection-errors',
           'source_commits': [], 'add_only': True},
 'engines': [{'name': 'tlc+replay', 'path': '/verif/check', 'serves_properties': sorted(CHECKS),
              'kind_free_text': 'TLA+ specifications in /verif/spec checked by TLC; Python harness /verif/harness/vz replays TLC output into seismic_zfp and validates recorded traces'}],
 'checks': checks,
 'notes': 'fix: commits in /repo (unguarded repairs of genuine defects): ' + '; '.join(fixes),
 'not_applicable': [{'property_id': p['id'], 'reason': 'check not built yet in this round (work in progress, see DESIGN.md section 13)'}
                    for p in props if p['id'] not in CHECKS],
}
json.dump(m, open(os.path.join(V, 'MANIFEST.json'), 'w'), indent=1)
print('checks:', len(checks), 'not_applicable:', len(m['not_applicable']))
