CONSTANT W = 6
CONSTANT GBug = "none"
SPECIFICATION Spec
