#!/venv/bin/python
"""Run the repository's pinned baseline (guard off, no shadow version) and compare with BASELINE.json."""
import json, subprocess, sys, tempfile, os, xml.etree.ElementTree as ET
repo = sys.argv[1] if len(sys.argv) > 1 else '/repo'
base = json.load(open('/root/.vp/BASELINE.json'))
with tempfile.TemporaryDirectory() as d:
    x = os.path.join(d, 'j.xml')
    env = {k: v for k, v in os.environ.items() if k not in ('PYTHONPATH', 'SEISMIC_ZFP_VERIF')}
    subprocess.run(['/venv/bin/python', '-m', 'pytest', '-ra', '-q', '-p', 'no:cacheprovider', '--timeout=900',
                    '--continue-on-collection-errors', '--junitxml=' + x], cwd=repo, env=env,
                   stdout=subprocess.DEVNULL, stderr=subprocess.DEVNULL)
    passed = set()
    for tc in ET.parse(x).getroot().iter('testcase'):
        if not any(c.tag in ('failure', 'error', 'skipped') for c in tc):
            passed.add(tc.get('classname') + '::' + tc.get('name'))
missing = [t for t in base['stable_pass'] if t not in passed]
print(f"baseline: {len(base['stable_pass']) - len(missing)}/{len(base['stable_pass'])} stable tests pass; total passed {len(passed)}")
for m in missing:
    print("  MISSING", m)
sys.exit(1 if missing else 0)
