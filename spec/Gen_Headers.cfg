CONSTANT HBug = "none"
SPECIFICATION Spec
