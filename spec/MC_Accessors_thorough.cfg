CONSTANT ABug = "none"
CONSTANT MaxLen = 6
SPECIFICATION Spec
INVARIANT PSame
INVARIANT PIter
CHECK_DEADLOCK FALSE
