"""Seeded inputs: float32 cubes with adversarial value classes, SEG-Y files through segyio.create."""
import os

import numpy as np
import segyio


def cube(shape, seed, kind=None):
    """Finite float32 data; every 4x4x4 neighbourhood differs so that a misplaced unit is visible."""
    rng = np.random.default_rng(seed)
    kinds = ('smooth', 'noise', 'mixed', 'wide')
    kind = kind or kinds[seed % len(kinds)]
    idx = np.indices(shape).astype(np.float64)
    if kind == 'smooth':
        a = sum(np.sin(0.37 * (k + 1) * idx[k] + 0.11 * seed) for k in range(len(shape))) * 100.0
        a = a + rng.standard_normal(shape)
    elif kind == 'noise':
        a = rng.standard_normal(shape) * 1000.0
    elif kind == 'mixed':
        a = rng.standard_normal(shape) * (10.0 ** rng.integers(-6, 7, size=shape))
        a[rng.random(shape) < 0.05] = 0.0
        a[rng.random(shape) < 0.02] = -0.0
    else:
        a = rng.standard_normal(shape) * 1e30
        a[rng.random(shape) < 0.1] = 1e-30
    # make every voxel identify its coordinate at moderate rates
    a = a + 1e3 * sum((k + 1) * idx[k] for k in range(len(shape)))
    return np.ascontiguousarray(a, dtype=np.float32)


def write_segy(path, data, ilines, xlines, samples, fmt=5, headers=None, ext_text=0, bin_fields=None,
               text=None, delay=None, sorting='il'):
    """Regular 3-D SEG-Y, inline sorted (sorting='xl': crossline sorted - file order is every inline of the first crossline,
    then of the second, ...).  headers: {TraceField: 2-D int array} extra per-trace values."""
    spec = segyio.spec()
    spec.sorting = 1 if sorting == 'xl' else 2
    spec.format = fmt
    spec.samples = np.asarray(samples, dtype=np.float64)
    spec.ilines = np.asarray(ilines, dtype=np.intc)
    spec.xlines = np.asarray(xlines, dtype=np.intc)
    spec.ext_headers = ext_text
    n_il, n_xl = len(ilines), len(xlines)
    dt_us = int(round((samples[1] - samples[0]) * 1000)) if len(samples) > 1 else 4000
    with segyio.create(path, spec) as f:
        if text is not None:
            f.text[0] = text
        for k in range(ext_text):
            f.text[1 + k] = ('EXT %d ' % k).ljust(3200).encode()
        t = 0
        order = [(i, x) for x in range(n_xl) for i in range(n_il)] if sorting == 'xl' else [(i, x) for i in range(n_il) for x in range(n_xl)]
        for i, x in order:
            if True:
                il, xl = ilines[i], xlines[x]
                h = {segyio.TraceField.INLINE_3D: int(il), segyio.TraceField.CROSSLINE_3D: int(xl),
                     segyio.TraceField.TRACE_SAMPLE_COUNT: len(samples),
                     segyio.TraceField.TRACE_SAMPLE_INTERVAL: dt_us & 0x7fff if dt_us > 32767 else dt_us,
                     segyio.TraceField.DelayRecordingTime: int(samples[0]) if delay is None else delay,
                     segyio.TraceField.TRACE_SEQUENCE_FILE: t + 1,
                     segyio.TraceField.CDP_X: 1000 + 25 * i, segyio.TraceField.CDP_Y: 5000 + 25 * x}
                if headers:
                    for k, arr in headers.items():
                        h[k] = int(arr[i, x])
                f.header[t] = h
                f.trace[t] = data[i, x, :]
                t += 1
        f.bin.update({segyio.BinField.Interval: dt_us if dt_us < 65536 else 0, segyio.BinField.Samples: len(samples),
                      segyio.BinField.Format: fmt, segyio.BinField.ExtendedHeaders: ext_text})
        if bin_fields:
            f.bin.update(bin_fields)
    return path


def write_segy_traces(path, traces, samples, headers, fmt=5, text=None, bin_fields=None):
    """Unstructured SEG-Y (irregular 3-D or 2-D): traces [n, nz]; headers: list of dicts per trace."""
    spec = segyio.spec()
    spec.format = fmt
    spec.samples = np.asarray(samples, dtype=np.float64)
    spec.tracecount = len(traces)
    dt_us = int(round((samples[1] - samples[0]) * 1000))
    with segyio.create(path, spec) as f:
        if text is not None:
            f.text[0] = text
        for t in range(len(traces)):
            h = {segyio.TraceField.TRACE_SAMPLE_COUNT: len(samples),
                 segyio.TraceField.TRACE_SAMPLE_INTERVAL: dt_us,
                 segyio.TraceField.DelayRecordingTime: int(samples[0]),
                 segyio.TraceField.TRACE_SEQUENCE_FILE: t + 1}
            h.update(headers[t])
            f.header[t] = h
            f.trace[t] = traces[t]
        f.bin.update({segyio.BinField.Interval: dt_us, segyio.BinField.Samples: len(samples),
                      segyio.BinField.Format: fmt})
        if bin_fields:
            f.bin.update(bin_fields)
    return path


FIXTURES = os.path.join(os.environ.get('VERIF_REPO', '/repo'), 'test_data')


def fixture_sgz():
    out = []
    for root, _, files in os.walk(FIXTURES):
        for f in sorted(files):
            if f.endswith('.sgz'):
                out.append(os.path.join(root, f))
    return sorted(out)
