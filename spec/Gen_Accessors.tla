----------------------------- MODULE Gen_Accessors -----------------------------
(* C13 generator: for a real cube (line numbers in file order, trace count, sample count) every expression of the slice grammar with the
   outcome segyio's semantics SegyioApi gives it; the harness evaluates each on segyio.open(sgy) - which must agree with the
   model, or the model is wrong - and on seismic_zfp.open(sgz). *)
EXTENDS SegyioApi, Json, IOUtils, TLC, SequencesExt
Input == JsonDeserialize(IOEnv.VZ_IN)
Items == Input.items
LineExprs(keys) ==
    LET inc == keys[2] - keys[1]
        B == SetOf(keys) \cup {NoneV}
        S == {NoneV} \cup {m * inc : m \in 1..3}
    IN  SetToSeq({[a |-> a, b |-> b, c |-> c, out |-> RefLineSlice(keys, a, b, c)] : a \in B, b \in B, c \in S})
LineItems(keys) == SetToSeq({[v |-> v, out |-> RefLineItem(keys, v)] : v \in (SMin(SetOf(keys)) - 1)..(SMax(SetOf(keys)) + 1)})
OrdExprs(n, bounds, steps) ==
    SetToSeq({[a |-> a, b |-> b, c |-> c, out |-> RefOrdSlice(n, a, b, c)] : a \in SetOf(bounds), b \in SetOf(bounds), c \in SetOf(steps)})
OrdItems(n, idx) == [k \in 1..Len(idx) |-> [i |-> idx[k], out |-> RefOrdItem(n, idx[k])]]
Out(it) == [il |-> LineExprs(it.il), xl |-> LineExprs(it.xl), il_items |-> LineItems(it.il), xl_items |-> LineItems(it.xl),
            il_iter |-> RefLineIter(it.il), xl_iter |-> RefLineIter(it.xl),
            trace |-> OrdExprs(it.ntr, it.tbounds, it.tsteps), trace_items |-> OrdItems(it.ntr, it.tidx),
            depth |-> OrdExprs(it.nz, it.zbounds, it.zsteps), depth_items |-> OrdItems(it.nz, it.zidx)]
ASSUME JsonSerialize(IOEnv.VZ_OUT, [items |-> [k \in 1..Len(Items) |-> Out(Items[k])]])
VARIABLE x
Init == x = 0
Next == x' = x
Spec == Init /\ [][Next]_x
=============================================================================
