------------------------------ MODULE SgzReader ------------------------------
(***************************************************************************)
(* The reader AS THE CODE DOES IT (read.py dispatch + loader.py address    *)
(* arithmetic), at compression-unit granularity.                           *)
(*                                                                         *)
(* A loader yields a record L:                                             *)
(*   reads : sequence of [off, len] range reads, offsets relative to the   *)
(*           data section (the code adds data_start_bytes)                 *)
(*   su    : shape, in units, of the array zfpy is asked to decode         *)
(*   src   : for every slot k (raster index in su) of the decode buffer,   *)
(*           the data-section offset its bytes were copied from            *)
(* A call outcome is Raise(e) or a sequence of parts [L, crop, lo, hi]:    *)
(* the returned array is decoded[crop .. crop + (hi-lo)) and is claimed to *)
(* be the voxels [lo, hi) of the volume.                                   *)
(* What it must equal is SgzApi!Ideal; where every unit lives is           *)
(* SgzFormat!UnitAtOff.  Both are independent of the definitions here.     *)
(***************************************************************************)
EXTENDS SgzApi

CONSTANT Bug      \* "none" for the code as it is; other values are deliberate spec-level mutants that the
                  \* invariants must reject (non-vacuity demonstrations, never used to judge the code)

U(F)  == F.ub
E(F)  == UnitExt(F)
Raster(s, su) == (s[1] * su[2] + s[2]) * su[3] + s[3]
NSlots(su)    == su[1] * su[2] * su[3]
Slot(k, su)   == <<k \div (su[2] * su[3]), (k \div su[3]) % su[2], k % su[3]>>
Read(o, l)    == [off |-> o, len |-> l]

\* loader.py:127  read_and_decompress_il_set(4*(il//4))     default layout only
IlSet(F, il) ==
    LET setBytes == (ChunkBytes(F) * Pa(F, 2)) \div 4
        off      == setBytes * (il \div 4)
        su       == <<1, NUa(F, 2), NUa(F, 3)>>
    IN  [reads |-> << Read(off, IF Bug = "il4x" THEN 4 * setBytes ELSE setBytes) >>, su |-> su,
         src |-> [k \in 0..(NSlots(su)-1) |-> off + k * U(F)]]

\* loader.py:133  read_and_decompress_xl_set(4*(xl//4))
XlSet(F, xl) ==
    LET first == (xl \div 4) * ChunkBytes(F)
        incr  == IF Bug = "xlincr" THEN ChunkBytes(F) * (F.n[2] \div 4) ELSE (ChunkBytes(F) * Pa(F, 2)) \div 4
        su    == <<NUa(F, 1), 1, NUa(F, 3)>>
    IN  [reads |-> [c \in 1..NUa(F, 1) |-> Read(first + (c-1) * incr, ChunkBytes(F))], su |-> su,
         src |-> [k \in 0..(NSlots(su)-1) |-> first + (k \div NUa(F, 3)) * incr + (k % NUa(F, 3)) * U(F)]]

\* loader.py:144  read_and_decompress_zslice_set(blocks_per_dim, z//bz, z)
ZSet(F, z) ==
    LET zfb == z \div F.b[3]
        uin == IF Bug = "zunit" THEN 0 ELSE (z % F.b[3]) \div 4
        n   == NBa(F, 1) * NBa(F, 2)
        su  == <<NUa(F, 1), NUa(F, 2), 1>>
        at(c) == zfb * BlockBytes(F) + uin * U(F) + c * ChunkBytes(F)
    IN  [reads |-> [c \in 1..n |-> Read(at(c-1), U(F))], su |-> su,
         src |-> [k \in 0..(n-1) |-> at(k)]]

\* loader.py:156 + 103  read_and_decompress_zslice_set_adv / _distribute_chunk_into_buffer   (bz = 4)
ZSetAdv(F, z) ==
    LET zfb  == z \div F.b[3]
        nb   == NB(F)
        ub1  == UBa(F, 1)
        ub2  == UBa(F, 2)
        su   == <<NUa(F, 1), NUa(F, 2), 1>>
        rd(id) == zfb * BlockBytes(F) + id * (BlockBytes(F) * nb[3])
        \* slot (s1,s2) of the 4-thick slab <- block (s1 \div ub1, s2 \div ub2), sub-block s1 % ub1, unit s2 % ub2
        from(k) == LET s1 == k \div NUa(F, 2)
                       s2 == k % NUa(F, 2)
                       id == (s1 \div ub1) * nb[2] + (s2 \div ub2)
                   IN  rd(id) + ((s1 % ub1) * ub2 + (s2 % ub2)) * U(F)
    IN  [reads |-> [c \in 1..(nb[1] * nb[2]) |-> Read(rd(c-1), BlockBytes(F))], su |-> su,
         src |-> [k \in 0..(NSlots(su)-1) |-> from(k)]]

\* loader.py:166-199  read_chunk_range + read_and_decompress_chunk_range   (default layout)
ChunkRange(F, lo, hi) ==
    LET cu == [a \in 1..3 |-> CeilDiv(hi[a], 4) - lo[a] \div 4]
        su == <<cu[1], cu[2], cu[3]>>
        start(i, x) == U(F) * (((lo[1] \div 4) + i) * NUa(F, 2) * NUa(F, 3) + ((lo[2] \div 4) + x) * NUa(F, 3) + lo[3] \div 4)
    IN  [reads |-> [c \in 1..(cu[1] * cu[2]) |-> Read(start((c-1) \div cu[2], (c-1) % cu[2]), U(F) * cu[3])], su |-> su,
         src |-> [k \in 0..(NSlots(su)-1) |-> start(Slot(k, su)[1], Slot(k, su)[2]) + Slot(k, su)[3] * U(F)]]

\* loader.py:201 / 70  read_unshuffle_and_decompress_chunk_range(_2d): whole blocks, decoded brick by brick
Unshuffle(F, lo, hi) ==
    LET cb == [a \in 1..3 |-> CeilDiv(hi[a], F.b[a]) - lo[a] \div F.b[a]]
        b0 == [a \in 1..3 |-> lo[a] \div F.b[a]]
        ub == UB(F)
        su == <<cb[1] * ub[1], cb[2] * ub[2], cb[3] * ub[3]>>
        blk(j) == BlockBytes(F) * (NBa(F, 3) * (NBa(F, 2) * (b0[1] + j[1]) + (b0[2] + j[2])) + (b0[3] + j[3]))
        cbs == <<cb[1], cb[2], cb[3]>>
        from(k) == LET s == Slot(k, su)
                       j == <<s[1] \div ub[1], s[2] \div ub[2], s[3] \div ub[3]>>
                       w == <<s[1] % ub[1], s[2] % ub[2], s[3] % ub[3]>>
                   IN  blk(j) + Raster(w, <<ub[1], ub[2], ub[3]>>) * U(F)
    IN  [reads |-> [c \in 1..NSlots(cbs) |-> Read(blk(Slot(c-1, cbs)), BlockBytes(F))], su |-> su,
         src |-> [k \in 0..(NSlots(su)-1) |-> from(k)]]

\* loader.py:62  read_and_decompress_trace_range(min_id, min_id + 4)   (2-D, bx = 4)
TraceRange2d(F, g) ==           \* g = trace group index
    LET su == <<1, 1, NUa(F, 3)>>
    IN  [reads |-> << Read(ChunkBytes(F) * g, ChunkBytes(F)) >>, su |-> su,
         src |-> [k \in 0..(NSlots(su)-1) |-> ChunkBytes(F) * g + k * U(F)]]

(***************************************************************************)
(* read.py: dispatch, bounds checks, crops                                 *)
(***************************************************************************)
\* m/key: the maxsize-1 cache (loader method) the buffer goes through and the arguments it is keyed by (the cache
\* is class level, so the key also contains the loader instance, i.e. the reader); ck: key of the per-reader
\* containing-chunk LRU when the part comes from get_trace, <<>> otherwise
PartK(L, crop, lo, hi, m, key) == [L |-> L, crop |-> crop, lo |-> lo, hi |-> hi, m |-> m, key |-> key, ck |-> <<>>]
Value(parts) == [kind |-> "value", parts |-> parts]
DefaultLayout(F) == F.b[1] = 4 /\ F.b[2] = 4

WinOK(lo, hi, up) == 0 <= lo /\ lo < up /\ 0 < hi /\ hi <= up /\ hi > lo      \* read.py:702

ReadSubvolume(F, lo, hi, pad) ==
    LET up == IF pad THEN P(F) ELSE [a \in 1..3 |-> F.n[a]]
    IN  IF F.dim = 2 THEN WrongDim
        ELSE IF ~(\A a \in 1..3 : WinOK(lo[a], hi[a], up[a])) THEN IndexErr
        ELSE IF DefaultLayout(F)
             THEN Value(<< PartK(ChunkRange(F, lo, hi), <<lo[1] % 4, lo[2] % 4,
                                                          IF Bug = "cropmod" THEN lo[3] % F.b[3] ELSE lo[3] % 4>>, lo, hi,
                                 "chunk_range", IF Bug = "crkey" THEN <<hi, <<lo[1], lo[2], 0>>, ~pad>> ELSE <<hi, lo, ~pad>>) >>)
             ELSE Value(<< PartK(Unshuffle(F, lo, hi), <<lo[1] % F.b[1], lo[2] % F.b[2], lo[3] % F.b[3]>>, lo, hi,
                                 "unshuffle", <<hi, lo>>) >>)

ReadInline(F, i) ==
    IF F.dim = 2 THEN WrongDim
    ELSE IF ~(0 <= i /\ i < F.n[1]) THEN IndexErr
    ELSE IF DefaultLayout(F) THEN Value(<< PartK(IlSet(F, i), <<i % 4, 0, 0>>, <<i, 0, 0>>, <<i + 1, F.n[2], F.n[3]>>,
                                                    "il_set", <<4 * (i \div 4)>>) >>)
    ELSE ReadSubvolume(F, <<i, 0, 0>>, <<i + 1, F.n[2], F.n[3]>>, FALSE)

ReadCrossline(F, x) ==
    IF F.dim = 2 THEN WrongDim
    ELSE IF ~(0 <= x /\ x < F.n[2]) THEN IndexErr
    ELSE IF DefaultLayout(F) THEN Value(<< PartK(XlSet(F, x), <<0, x % 4, 0>>, <<0, x, 0>>, <<F.n[1], x + 1, F.n[3]>>,
                                                    "xl_set", <<4 * (x \div 4)>>) >>)
    ELSE ReadSubvolume(F, <<0, x, 0>>, <<F.n[1], x + 1, F.n[3]>>, FALSE)

ReadZslice(F, z) ==
    IF F.dim = 2 THEN WrongDim
    ELSE IF ~(0 <= z /\ z < F.n[3]) THEN IndexErr
    ELSE IF DefaultLayout(F) THEN Value(<< PartK(ZSet(F, z), <<0, 0, z % 4>>, <<0, 0, z>>, <<F.n[1], F.n[2], z + 1>>,
                                                    "zslice_set", IF Bug = "zkey" THEN <<z \div F.b[3]>> ELSE <<z \div F.b[3], z>>) >>)
    ELSE IF F.b[3] = 4 THEN Value(<< PartK(ZSetAdv(F, z), <<0, 0, z % 4>>, <<0, 0, z>>, <<F.n[1], F.n[2], z + 1>>,
                                                  "zslice_set_adv", <<z \div F.b[3]>>) >>)
    ELSE ReadSubvolume(F, <<0, 0, z>>, <<F.n[1], F.n[2], z + 1>>, FALSE)

ByCoord(A, cnt, c, rd(_)) == LET k == CoordIndex(A, cnt, c) IN IF k = None THEN IndexErr ELSE rd(k)

\* read.py:770-838  get_trace (3-D): containing chunk through the padded sub-volume path, then a second crop
GetTrace3(F, index, mn0, mx0, override) ==
    LET cnt  == TraceCount(F)
        g    == IF Irregular(F) /\ ~override
                THEN (IF index \in 0..(cnt-1) THEN GridPos(F, index)
                      ELSE IF index \in (0-cnt)..(-1) THEN GridPos(F, cnt + index) ELSE None)
                ELSE index
    IN  IF g = None \/ ~(0 <= g /\ g < F.n[1] * F.n[2]) THEN IndexErr
        ELSE LET il == g \div F.n[2]
                 xl == g % F.n[2]
                 mn == IF mn0 = None THEN 0 ELSE mn0
                 mx == IF mx0 = None THEN F.n[3] ELSE mx0
             IN  IF Bug # "nobound" /\ ~(0 <= mn /\ mn < mx /\ mx <= F.n[3]) THEN IndexErr
                 ELSE LET ri == F.b[1] * (il \div F.b[1])
                          rx == F.b[2] * (xl \div F.b[2])
                          zlo == F.b[3] * (mn \div F.b[3])
                          zhi == F.b[3] * CeilDiv(mx, F.b[3])
                          ch == ReadSubvolume(F, <<ri, rx, zlo>>, <<ri + F.b[1], rx + F.b[2], zhi>>, TRUE)
                      IN  IF ch.kind = "raise" THEN ch
                          ELSE LET p == ch.parts[1]
                               IN  Value(<< [PartK(p.L, <<p.crop[1] + (il % F.b[1]), p.crop[2] + (xl % F.b[2]), p.crop[3] + mn - zlo>>,
                                                   <<il, xl, mn>>, <<il + 1, xl + 1, mx>>, p.m, p.key)
                                             EXCEPT !.ck = IF Bug = "ckey" THEN <<ri, zlo, zhi>> ELSE <<ri, rx, zlo, zhi>>] >>)

GetTrace2(F, index, mn0, mx0) ==
    LET mn == IF mn0 = None THEN 0 ELSE mn0
        mx == IF mx0 = None THEN F.n[3] ELSE mx0
        g  == index \div F.b[2]
        zlo == F.b[3] * (mn \div F.b[3])
        zhi == F.b[3] * CeilDiv(mx, F.b[3])
    IN  IF ~(0 <= index /\ index < F.n[2]) THEN IndexErr
        ELSE IF ~(0 <= mn /\ mn < mx /\ mx <= F.n[3]) THEN IndexErr
        ELSE IF F.b[2] = 4 /\ zlo = 0 /\ zhi = Pa(F, 3)
             THEN Value(<< PartK(TraceRange2d(F, g), <<0, index % 4, mn>>, <<0, index, mn>>, <<1, index + 1, mx>>,
                                 "trace_range", <<F.b[2] * g, F.b[2] * g + F.b[2]>>) >>)
             ELSE LET lo == <<0, F.b[2] * g, zlo>>
                      hi == <<1, F.b[2] * g + F.b[2], zhi>>
                  IN  Value(<< PartK(Unshuffle(F, lo, hi), <<0, index % F.b[2], mn - zlo>>, <<0, index, mn>>, <<1, index + 1, mx>>,
                                     "unshuffle_2d", <<hi, lo>>) >>)

ReadSubplane(F, lo, hi) ==         \* lo, hi = <<0,t,z>>, <<1,t',z'>>
    IF F.dim = 3 THEN WrongDim
    ELSE IF ~(WinOK(lo[2], hi[2], F.n[2]) /\ WinOK(lo[3], hi[3], F.n[3])) THEN IndexErr
    ELSE Value(<< PartK(Unshuffle(F, lo, hi), <<0, lo[2] % F.b[2], lo[3] % F.b[3]>>, lo, hi, "unshuffle_2d", <<hi, lo>>) >>)

\* diagonals: one get_trace per position (read.py:492-620)
DiagLenC(F, cd) == Len(CorrPos(F, cd))         \* utils.get_correlated_diagonal_length has the same value (checked in MC)
Diag(F, pos, a) ==
    LET full == a[2] = None \/ a[3] = None
        mn   == IF full THEN 0 ELSE a[2]
        mx   == IF full THEN Len(pos) ELSE a[3]
        zfull == a[4] = None \/ a[5] = None
    IN  IF ~full /\ ~(0 <= mn /\ mn < Len(pos) /\ 0 < mx /\ mx <= Len(pos) /\ mn < mx) THEN IndexErr
        ELSE IF ~zfull /\ ~(0 <= a[4] /\ a[4] < a[5] /\ a[5] <= F.n[3]) THEN IndexErr
        ELSE LET tr(d) == GetTrace3(F, pos[d + 1][1] * F.n[2] + pos[d + 1][2], IF zfull THEN None ELSE a[4],
                                    IF zfull THEN None ELSE a[5], TRUE)
             IN  Value([k \in 1..(mx - mn) |-> tr(mn + k - 1).parts[1]])

Call(F, op, a) ==
    CASE op = "read_inline"    -> ReadInline(F, a[1])
      [] op = "read_crossline" -> ReadCrossline(F, a[1])
      [] op = "read_zslice"    -> ReadZslice(F, a[1])
      [] op = "read_inline_number"    -> IF F.dim = 2 THEN WrongDim ELSE ByCoord(F.il, F.n[1], a[1], LAMBDA k : ReadInline(F, k))
      [] op = "read_crossline_number" -> IF F.dim = 2 THEN WrongDim ELSE ByCoord(F.xl, F.n[2], a[1], LAMBDA k : ReadCrossline(F, k))
      [] op = "read_zslice_coord"     -> ByCoord(F.zs, F.n[3], a[1], LAMBDA k : ReadZslice(F, k))
      [] op = "read_subvolume" -> ReadSubvolume(F, <<a[1], a[3], a[5]>>, <<a[2], a[4], a[6]>>, FALSE)
      [] op = "read_volume"    -> ReadSubvolume(F, <<0, 0, 0>>, <<F.n[1], F.n[2], F.n[3]>>, FALSE)
      [] op = "get_trace"      -> IF F.dim = 2 THEN GetTrace2(F, a[1], a[2], a[3]) ELSE GetTrace3(F, a[1], a[2], a[3], FALSE)
      [] op = "get_trace_by_coord" ->      \* read.py:742: min by coordinate, max by coordinate or one step past the end
            LET lo == IF a[2] = None THEN 0 ELSE CoordIndex(F.zs, F.n[3], a[2])
                hi == IF a[3] = None THEN F.n[3]
                      ELSE IF CoordIndex(F.zs, F.n[3], a[3]) # None THEN CoordIndex(F.zs, F.n[3], a[3])
                      ELSE IF a[3] = F.zs.s + F.n[3] * F.zs.d THEN F.n[3] ELSE None
            IN  IF lo = None \/ hi = None THEN IndexErr
                ELSE IF F.dim = 2 THEN GetTrace2(F, a[1], lo, hi) ELSE GetTrace3(F, a[1], lo, hi, FALSE)
      [] op = "read_subplane"  -> ReadSubplane(F, <<0, a[1], a[3]>>, <<1, a[2], a[4]>>)
      [] op = "read_correlated_diagonal" ->
            IF F.dim = 2 THEN WrongDim
            ELSE IF ~(a[1] > 0 - F.n[2] /\ a[1] < F.n[1]) THEN IndexErr ELSE Diag(F, CorrPos(F, a[1]), a)
      [] op = "read_anticorrelated_diagonal" ->
            IF F.dim = 2 THEN WrongDim
            ELSE IF ~(a[1] >= 0 /\ a[1] < F.n[1] + F.n[2] - 1) THEN IndexErr ELSE Diag(F, AntiPos(F, a[1]), a)
      [] OTHER -> Raise("UnknownOp")

(***************************************************************************)
(* What the model's outcome is checked against                             *)
(***************************************************************************)
\* every decode slot the crop region touches holds the unit the claim [lo,hi) says it holds, and was fetched
PartCoherent(F, p) ==
    LET su == p.L.su
        ok(a) == (p.lo[a] - p.crop[a]) % UE(F, a) = 0
        base == [a \in 1..3 |-> (p.lo[a] - p.crop[a]) \div UE(F, a)]
        first(a) == p.crop[a] \div UE(F, a)
        last(a)  == (p.crop[a] + p.hi[a] - p.lo[a] - 1) \div UE(F, a)
    IN  /\ \A a \in 1..3 : ok(a) /\ p.hi[a] > p.lo[a] /\ last(a) < su[a]
        /\ \A s1 \in first(1)..last(1), s2 \in first(2)..last(2), s3 \in first(3)..last(3) :
              LET off == p.L.src[Raster(<<s1, s2, s3>>, su)]
              IN  /\ off % U(F) = 0 /\ off >= 0 /\ off + U(F) <= DataBytes(F)
                  /\ UnitAtOff(F, off) = <<base[1] + s1, base[2] + s2, base[3] + s3>>
                  /\ \E r \in 1..Len(p.L.reads) : p.L.reads[r].off <= off /\ off + U(F) <= p.L.reads[r].off + p.L.reads[r].len

\* the claim [lo,hi) of the parts is the selection the ideal outcome denotes
First(s) == s[1]
Last(s)  == s[Len(s)]
MatchesAlt(F, out, alt) ==
    CASE alt.kind = "raise" -> out.kind = "raise" /\ out.exc = alt.exc
      [] alt.kind = "box"   ->
            /\ out.kind = "value" /\ Len(out.parts) = 1
            /\ Len(alt.il) > 0 /\ Len(alt.xl) > 0 /\ Len(alt.z) > 0
            /\ out.parts[1].lo = <<First(alt.il), First(alt.xl), First(alt.z)>>
            /\ out.parts[1].hi = <<Last(alt.il) + 1, Last(alt.xl) + 1, Last(alt.z) + 1>>
            /\ PartCoherent(F, out.parts[1])
      [] alt.kind = "pairs" ->
            /\ out.kind = "value" /\ Len(out.parts) = Len(alt.pos) /\ Len(alt.z) > 0
            /\ \A k \in 1..Len(alt.pos) :
                  /\ out.parts[k].lo = <<alt.pos[k][1], alt.pos[k][2], First(alt.z)>>
                  /\ out.parts[k].hi = <<alt.pos[k][1] + 1, alt.pos[k][2] + 1, Last(alt.z) + 1>>
                  /\ PartCoherent(F, out.parts[k])
      [] OTHER -> FALSE

Allowed(F, op, a) == LET alts == Ideal(F, op, a) out == Call(F, op, a)
                     IN  \E k \in 1..Len(alts) : MatchesAlt(F, out, alts[k])

\* C07 on the model's reads.  Consecutive parts decoded from the same containing chunk share one fetch
\* (chunk LRU of any capacity >= 1).
PartReads(out) ==
    LET fresh(k) == k = 1 \/ out.parts[k].L.reads # out.parts[k-1].L.reads
        RECURSIVE cat(_)
        cat(k) == IF k > Len(out.parts) THEN <<>> ELSE (IF fresh(k) THEN out.parts[k].L.reads ELSE <<>>) \o cat(k + 1)
    IN  cat(1)
ReadBlocks(rs) == UNION {(rs[r].off \div DiskBlockBytes)..((rs[r].off + rs[r].len - 1) \div DiskBlockBytes) : r \in 1..Len(rs)}
Disjoint(rs) == \A r, q \in 1..Len(rs) : r < q => (rs[r].off + rs[r].len <= rs[q].off \/ rs[q].off + rs[q].len <= rs[r].off)
IoProportional(F, op, a) ==
    LET out == Call(F, op, a)
        rs  == PartReads(out)
        alt == Ideal(F, op, a)[1]
    IN  out.kind = "value" =>
          /\ \A r \in 1..Len(rs) : rs[r].off >= 0 /\ rs[r].len > 0 /\ rs[r].off + rs[r].len <= DataBytes(F)
          /\ Disjoint(rs)
          /\ ReadBlocks(rs) = NeededBlocks(F, alt)
=============================================================================
