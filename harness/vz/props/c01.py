"""C01 write-then-read fidelity: whatever route and valid setting, the data section holds Enc of the edge-extended
source's units at the addresses the format derives (TLC), and the volume read back is bitwise the ZFP fixed-rate
image of the source extended to a multiple of 4."""
import os
from fractions import Fraction as Fr

import numpy as np
import segyio

from .. import audit, codec, env, inputs, par, reducedio, session, writers

FINISH = dict(
    level='model_checking',
    rule='TLC proves for all small shapes x blockshape families that the producers\' unit order is the format\'s (MC_WriterData); real '
         'cubes (every residue of each extent mod 4 and mod blockshape, seeded values incl. +-0/tiny/huge) are written by every route '
         '(NumPy, segyio IEEE/IBM, reduced-I/O reader, extended textual headers, CLI, VDS/ZGY fixtures) x valid settings; each data slot is '
         'compared bitwise with Enc of the ideal unit at the TLC-emitted address and read_volume() with the whole-array ZFP image; '
         'non-trivial = distinct (route, shape, rate, blockshape)',
    assumptions=['finite float32 inputs', 'for IBM SEG-Y the source samples are the float32 values segyio delivers'],
    trusted=['zfpy', 'numpy', 'segyio', 'TLC'])

RATES = [Fr(1, 4), Fr(1, 2), 1, 2, 4, 8, 16, 32]


def blockshapes(rate, dim=3, limit_vox=None):
    """valid blockshapes for a rate: powers of two >= 4 with product * rate = 32768"""
    vox = int(32768 / Fr(rate))
    out = []
    p2 = [4 << k for k in range(14)]
    if dim == 3:
        for a in p2:
            for b in p2:
                if vox % (a * b) == 0 and vox // (a * b) >= 4 and (vox // (a * b)) & (vox // (a * b) - 1) == 0:
                    out.append((a, b, vox // (a * b)))
    else:
        for b in p2:
            if vox % b == 0 and vox // b >= 4:
                out.append((1, b, vox // b))
    return out


def residues(b, rng, k=3):
    """extents on different residues mod 4 and mod b, below / at / above one block"""
    c = sorted({2, 3, 4, 5, b - 1, b, b + 1, b + 4, 2 * b - 1, 2 * b + 1} - {0, 1})
    c = [v for v in c if v <= 140] or [min(c)]
    return [int(x) for x in rng.choice(c, size=min(k, len(c)), replace=False)]


def plan(run):
    """(route, shape, rate, blockshape, opts)"""
    rng = np.random.default_rng(run.seed)
    quick = run.tier == 'quick'
    P = []
    # NumPy route: every rate, several blockshape families, shapes on every residue
    for rate in ([32, 16, 4, Fr(1, 2)] if quick else RATES):
        bss = blockshapes(rate)
        fam = [b for b in bss if b[0] == 4 and b[1] == 4] + [b for b in bss if b[2] == 4 and b[0] == b[1]][:1] + \
              [b for b in bss if b[0] == 4 and b[1] == 8][:1] + [b for b in bss if b[0] == 8 and b[1] == 8][:1] + \
              [b for b in bss if b[0] == 8 and b[1] == 4][:1] + [b for b in bss if b[0] == 16 and b[1] == 4][:1]
        if not quick:
            extra = [b for b in bss if b not in fam and max(b) <= 256]
            fam += [extra[i] for i in rng.choice(len(extra), size=min(4, len(extra)), replace=False)] if extra else []
        for bs in fam:
            for rep in range(1 if quick else 2):
                shape = []
                for ax in range(3):
                    b = bs[ax]
                    if b > 128:      # a long trace axis: below and above one block only when affordable
                        shape.append(int(rng.choice([5, 50, b + 3] if b <= 2048 else [7, 50])))
                    else:
                        shape.append(residues(b, rng, 1)[0])
                if shape[0] * shape[1] * shape[2] > 3_000_000:
                    shape[2] = 50
                P.append(('numpy', tuple(shape), rate, bs, {}))
    # free blockshape parameter (-1) and string / negative rate spellings
    P.append(('numpy', (5, 6, 70), 32, (4, 4, -1), {}))
    P.append(('numpy', (9, 5, 40), -2, (4, 4, -1), {'rate_true': Fr(1, 2)}))
    P.append(('numpy', (9, 5, 40), "8", (4, -1, 256), {'rate_true': 8}))
    P.append(('numpy', (9, 9, 9), -1, (16, 16, 4), {'rate_true': 32}))
    # arrays that are not C-contiguous (Fortran order, strided and reversed views, a transposed buffer)
    for j, lay in enumerate(('F', 'stride', 'rev', 'T')):
        P.append(('numpy', (9, 10, 70), 16, (4, 4, -1), {'layout': lay}))
        P.append(('numpy', (6, 11, 40), 32, ((8, 8, 16), (4, 8, 32), (16, 16, 4), (8, 8, 16))[j], {'layout': lay}))
    for lay, at in (('ro', None), ('mmap', None), (None, 'list'), (None, 'npint'), (None, 'float')):
        P.append(('numpy', (9, 10, 70), 16, (4, 4, -1) if at != 'npint' else (4, 4, 128), {k: v for k, v in (('layout', lay), ('argtypes', at)) if v}))
        P.append(('numpy', (6, 11, 40), 32, (8, 8, 16), {k: v for k, v in (('layout', lay), ('argtypes', at)) if v}))
    # SEG-Y routes
    # inline counts below, at and above a multiple of the block height (the last plane set full / short)
    # (and more than one block along the crossline AND the sample axis: the order in which a plane set's blocks are queued)
    segy_shapes = [(5, 6, 70), (9, 4, 33), (8, 5, 20), (16, 3, 9), (4, 4, 8), (6, 11, 40)] if quick else [(5, 6, 70), (9, 4, 33), (4, 4, 64), (2, 2, 2), (13, 9, 130), (8, 8, 8), (8, 5, 20), (16, 3, 9), (12, 7, 9), (24, 2, 5), (6, 11, 40), (5, 19, 70)]
    for shape in segy_shapes:
        for rate, bs in ((16, None), (32, (8, 8, 16)), (8, (4, 4, -1)), (32, (4, 8, 32)), (32, (16, 16, 4)), (16, (8, 4, -1))):
            for route, opts in (('segy', {'fmt': 5}), ('segy', {'fmt': 1}), ('segy-iops', {'fmt': 5}), ('segy-iops', {'fmt': 1}),
                                ('segy', {'fmt': 5, 'ext': 1}), ('segy-iops', {'fmt': 5, 'ext': 2}), ('cli', {'fmt': 5}),
                                ('segy', {'fmt': 1, 'sort': 'xl'}), ('segy-iops', {'fmt': 5, 'sort': 'xl'})):     # crossline-sorted sources
                if quick and (rate, bs) not in ((16, None), (32, (8, 8, 16))) and route != 'segy':
                    continue
                if route == 'cli' and isinstance(rate, Fr):
                    continue
                P.append((route, shape, rate, bs, opts))
    # sample counts that are an exact multiple of the block length (no sample padding at all), per route and format
    for shape, rate, bs in (((5, 6, 32), 32, (8, 8, 16)), ((4, 5, 128), 16, None), ((9, 4, 64), 32, (4, 8, 32)), ((5, 5, 256), 8, (4, 4, -1)), ((17, 18, 8), 32, (16, 16, 4))):
        for route, opts in (('segy', {'fmt': 5}), ('segy', {'fmt': 1}), ('segy-iops', {'fmt': 5}), ('segy-iops', {'fmt': 1})):
            P.append((route, shape, rate, bs, opts))
    # a survey whose first inline is dead (all-zero traces): both float formats, both readers
    for route, opts in (('segy', {'fmt': 5, 'dead': 1}), ('segy-iops', {'fmt': 5, 'dead': 1}), ('segy-iops', {'fmt': 1, 'dead': 1}), ('segy-iops', {'fmt': 5, 'dead': 1, 'ext': 1})):
        P.append((route, (6, 5, 40), 16, None, opts))
        P.append((route, (9, 9, 20), 32, (8, 8, 16), opts))
    # dead traces along both edges (first inline AND first crossline all zero) in files of either sorting: the first run of consecutive
    # file traces then equals the first inline whatever the sorting is (what the reduced-I/O reader tests itself with)
    for sort in ('il', 'xl'):
        for route, fmt in (('segy', 5), ('segy-iops', 5), ('segy-iops', 1)):
            P.append((route, (5, 5, 40), 16, None, {'fmt': fmt, 'dead': 2, 'sort': sort}))
            P.append((route, (9, 7, 20), 32, (8, 8, 16), {'fmt': fmt, 'dead': 2, 'sort': sort}))
    return P


def _make(item):
    """worker: write one file by its route; -> result record (the file is audited in the worker too)"""
    k, (route, shape, rate, bs, opts) = item
    d = env.subdir(f'c01-{os.getpid()}')
    seed = par.G['seed'] + k
    cube = inputs.cube(shape, seed)
    if opts.get('dead'):
        cube[0] = 0.0
    if opts.get('dead') == 2:
        cube[:, 0] = 0.0
    p = os.path.join(d, f'f{k}.sgz')
    rate_true = Fr(opts.get('rate_true', rate)) if not isinstance(rate, str) else Fr(opts['rate_true'])
    res = {'k': k, 'written': False}
    try:
        if route == 'numpy':
            arr = cube
            lay = opts.get('layout')       # the same values handed over in another memory layout
            if lay == 'F':
                arr = np.asfortranarray(cube)
            elif lay == 'stride':
                big = np.zeros((shape[0] * 2, shape[1], shape[2] + 3), dtype=np.float32)
                big[::2, :, 1:-2] = cube
                arr = big[::2, :, 1:-2]
            elif lay == 'rev':
                arr = np.ascontiguousarray(cube[::-1, :, ::-1])[::-1, :, ::-1]
            elif lay == 'T':
                arr = np.ascontiguousarray(cube.transpose(2, 0, 1)).transpose(1, 2, 0)
            elif lay == 'ro':           # a read-only array
                arr = cube.copy()
                arr.setflags(write=False)
            elif lay == 'mmap':         # a memory-mapped file
                np.save(p + '.npy', cube)
                arr = np.load(p + '.npy', mmap_mode='r')
            at = opts.get('argtypes')   # the same setting spelled with other accepted types
            bs_arg = list(bs) if at == 'list' else tuple(np.int64(x) for x in bs) if at == 'npint' else bs
            rate_arg_ = np.int64(rate) if at == 'npint' else float(rate) if at == 'float' else rate
            out_arg = __import__('pathlib').Path(p) if at in ('list', 'float') else p
            writers.numpy_to_sgz(out_arg, arr, rate_arg_ if isinstance(rate_arg_, (str, int, float, np.integer)) else writers.rate_arg(rate), bs_arg)
            if os.path.exists(p + '.npy'):
                os.remove(p + '.npy')
            src = cube
        else:
            sgy = os.path.join(d, f'f{k}.sgy')
            inputs.write_segy(sgy, cube, np.arange(shape[0]) + 3, np.arange(shape[1]) * 2 + 10, np.arange(shape[2]) * 4.0,
                              fmt=opts.get('fmt', 5), ext_text=opts.get('ext', 0), sorting=opts.get('sort', 'il'))
            with segyio.open(sgy, strict=False) as f:
                src = np.stack([np.asarray(f.trace[t]) for t in range(f.tracecount)])
            if opts.get('sort') == 'xl':      # file order is crossline-major; the cube is the same cube
                src = src.reshape(shape[1], shape[0], shape[2]).transpose(1, 0, 2)
            src = np.ascontiguousarray(src.reshape(shape).astype(np.float32))
            if route == 'cli':
                from click.testing import CliRunner
                from seismic_zfp.cli import cli
                args = ['sgy2sgz', sgy, p, '--bits-per-voxel', str(int(rate))]
                if bs is not None:
                    args += ['--blockshape'] + [str(x) for x in bs]
                with env.quiet():
                    r = CliRunner().invoke(cli, args)
                if r.exit_code != 0:
                    raise RuntimeError(f'cli exit {r.exit_code}: {r.output[-200:]} {r.exception!r}')
            else:
                writers.segy_to_sgz(sgy, p, writers.rate_arg(rate), bs, reduce_iops=(route == 'segy-iops'))
            os.remove(sgy)
        res['written'] = True
        fc = session.FileCase(p)
        res['F'] = {kk: fc.F[kk] for kk in ('dim', 'n', 'b', 'ub')}
        lay = par.G['layout_cache'].get(repr(res['F']))
        res['need_layout'] = lay is None
        if lay is None:
            res['path'] = p
            res['src'] = src
            res['rate_true'] = rate_true
            return res
    except BaseException as e:
        if isinstance(e, (KeyboardInterrupt, SystemExit, MemoryError)):
            raise
        res['error'] = f'{type(e).__name__}: {e}'
    return res


def run(run):
    run.mc('MC_WriterData', f'MC_WriterData_{run.tier}')
    if not codec.self_check(run.seed):
        run.machinery('zfpy block independence does not hold')
        return
    P = plan(run)
    par.G['seed'] = run.seed
    par.G['layout_cache'] = {}
    # which SEG-Y reader the converter picks (SgzReducedIo): TLC's cases converted by both routes
    reducedio.run_pass(run, 400 if run.tier == 'quick' else 4000, np.random.default_rng(run.seed))
    made = par.pmap(_make, list(enumerate(P)), chunksize=2)
    todo = []
    for (route, shape, rate, bs, opts), r in zip(P, made):
        case = {'route': route, 'shape': list(shape), 'rate': str(rate), 'blockshape': list(bs) if bs else None, 'opts': opts and {k: str(v) for k, v in opts.items()}}
        if isinstance(r, par.Crash):
            run.fail('C01.writer-accepts', case, f'worker died {r}', 'a file')
            continue
        run.case(case)
        if not run.check(r.get('written', False), 'C01.writer-accepts', case, r.get('error'), 'a valid setting is accepted'):
            continue
        todo.append((case, r))
    # layouts from TLC for all files in one batch, then audit (serial: the heavy part is zfpy and is short)
    fcs = session.load_files([session.FileCase(r['path'], label=f"{c['route']}{c['shape']}") for c, r in todo], run)
    for (case, r), fc in zip(todo, fcs):
        src3 = r['src'] if fc.F['dim'] == 3 else r['src'][None]
        ok_rate = fc.meta['rate'] == r['rate_true']
        run.check(ok_rate, 'C01.rate-recorded', case, str(fc.meta['rate']), str(r['rate_true']))
        ok, bad, n = audit.data_slots_ok(fc, src3)
        run.check(ok, 'C01.data-slot-bytes', case, {'first_bad_unit': bad, 'checked': n}, 'Enc(ideal unit) at UnitAddr')
        try:
            ok2, shp = audit.readback_ok(r['path'], src3 if fc.F['dim'] == 3 else src3, fc.meta['rate'], dim=fc.F['dim'])
            run.check(ok2, 'C01.readback-bitwise', case, {'shape': list(shp)}, 'ZFP image of the 4-padded source')
        except BaseException as e:        # the library's own reader cannot read what its writer wrote
            if isinstance(e, (KeyboardInterrupt, SystemExit, MemoryError)):
                raise
            run.fail('C01.readback-bitwise', case, f'{type(e).__name__}: {e}', 'ZFP image of the 4-padded source')
        os.remove(r['path'])
    # VDS / ZGY routes: the fixture files only (no offline writer for those formats)
    fixture_routes(run)


def fixture_routes(run):
    d = env.subdir('c01fx')
    base = inputs.FIXTURES
    cands = []
    for sub, conv in (('zgy', 'ZgyConverter'), ('vds', 'VdsConverter')):
        dd = os.path.join(base, sub)
        if os.path.isdir(dd):
            for f in sorted(os.listdir(dd)):
                if f.endswith('.' + sub):
                    cands.append((sub, os.path.join(dd, f), conv))
    for sub, path, conv in cands:
        case = {'route': sub, 'file': os.path.basename(path)}
        run.case(case)
        out = os.path.join(d, os.path.basename(path) + '.sgz')
        try:
            import seismic_zfp.conversion as cv
            from seismic_zfp.seismicfile import SeismicFile, Filetype
            with env.quiet():
                with getattr(cv, conv)(path) as c:
                    c.run(out, bits_per_voxel=16)
                with SeismicFile.open(path) as f:
                    if sub == 'zgy':
                        src = np.stack([np.asarray(f.iline[il]) for il in f.ilines]).astype(np.float32)
                    else:
                        src = np.stack([np.asarray(f.iline[il]) for il in f.ilines]).astype(np.float32)
        except BaseException as e:
            if isinstance(e, (KeyboardInterrupt, SystemExit, MemoryError)):
                raise
            run.fail(f'C01.route-{sub}', case, f'{type(e).__name__}: {e}', 'a file')
            continue
        ok, shp = audit.readback_ok(out, src, 16)
        run.check(ok, f'C01.route-{sub}', case, {'shape': list(shp)}, 'ZFP image of the source')
        os.remove(out)


def replay(run, rep):
    c = rep['case']
    if 'reduced_io' in c:
        reducedio.replay(run, rep)
        return
    if 'file' in c:
        fixture_routes(run)
        return
    par.G['seed'] = run.seed
    par.G['layout_cache'] = {}
    rate = c['rate']
    rate = Fr(rate) if '/' in rate else (rate if not rate.lstrip('-').isdigit() else int(rate))
    P = plan(run)
    idx = [k for k, p in enumerate(P) if p[0] == c['route'] and list(p[1]) == c['shape'] and str(p[2]) == c['rate']
           and (list(p[3]) if p[3] else None) == c['blockshape']]
    k = idx[0] if idx else 0
    item = P[k] if idx else (c['route'], tuple(c['shape']), rate, tuple(c['blockshape']) if c['blockshape'] else None, {})
    r = _make((k, item))
    if not run.check(r.get('written', False), 'C01.writer-accepts', c, r.get('error'), None):
        return
    fc = session.load_files([session.FileCase(r['path'])], run)[0]
    src3 = r['src'] if fc.F['dim'] == 3 else r['src'][None]
    ok, bad, n = audit.data_slots_ok(fc, src3)
    run.check(ok, 'C01.data-slot-bytes', c, bad, None)
    ok2, shp = audit.readback_ok(r['path'], src3, fc.meta['rate'], dim=fc.F['dim'])
    run.check(ok2, 'C01.readback-bitwise', c, shp, None)
