"""Write seam: conversion.open / conversion_utils.open / cropping.open (module globals shadowing the builtin) are
replaced for the duration of a writer call so that every write of every handle on the output file is recorded as
(seq, handle, offset, bytes) in program order."""
import builtins
import contextlib
import threading


class RecFile:
    def __init__(self, rec, path, mode, hid, *a, **kw):
        self.rec, self.name, self.mode, self.hid = rec, path, mode, hid
        self._f = builtins.open(path, mode, *a, **kw)       # (buffering / opener arguments are the caller's)
        self.closed = False
        if rec.initial is None:         # what the path holds right after the writer opened it: empty unless the open did not truncate
            with builtins.open(path, 'rb') as f0:
                rec.initial = f0.read()

    def write(self, data):
        data = bytes(data)
        with self.rec.lock:
            off = self._f.tell()
            self.rec.events.append({'seq': len(self.rec.events), 'h': self.hid, 'off': off, 'len': len(data),
                                    'thread': threading.current_thread().name, 'data': data})
            hook = self.rec.on_write
        if hook:
            hook(self.rec.events[-1])
        return self._f.write(data)

    def writelines(self, lines):
        for x in lines:
            self.write(x)

    def truncate(self, size=None):
        """sizing the file is a write too: growing it puts zero bytes on disk where data is still to come"""
        import os
        with self.rec.lock:
            self._f.flush()
            cur = os.fstat(self._f.fileno()).st_size
            n = self._f.tell() if size is None else int(size)
            ev = {'seq': len(self.rec.events), 'h': self.hid, 'thread': threading.current_thread().name, 'truncate': n}
            if n >= cur:
                ev.update(off=cur, len=n - cur, data=bytes(n - cur))
            else:
                ev.update(off=n, len=0, data=b'', shrink=n)
            self.rec.events.append(ev)
            hook = self.rec.on_write
        if hook:
            hook(ev)
        return self._f.truncate(n)

    def __getattr__(self, name):        # anything else (fileno, readinto, ...) is the real file's business
        return getattr(self.__dict__['_f'], name)

    def seek(self, *a):
        return self._f.seek(*a)

    def tell(self):
        return self._f.tell()

    def read(self, *a):
        return self._f.read(*a)

    def flush(self):
        with self.rec.lock:
            self.rec.events.append({'seq': len(self.rec.events), 'h': self.hid, 'flush': True,
                                    'thread': threading.current_thread().name})
        return self._f.flush()

    def close(self):
        if not self.closed:
            self.closed = True
            self._f.close()

    def __enter__(self):
        return self

    def __exit__(self, *exc):
        self.close()


class Recorder:
    def __init__(self, out_path):
        self.out_path = out_path
        self.events = []
        self.lock = threading.RLock()
        self.handles = 0
        self.on_write = None
        self.initial = None

    def open(self, path, mode='r', *a, **kw):
        if path == self.out_path and ('w' in mode or '+' in mode or 'a' in mode):
            with self.lock:
                self.handles += 1
                hid = self.handles
            return RecFile(self, path, mode, hid, *a, **kw)
        return builtins.open(path, mode, *a, **kw)

    def writes(self):
        return [e for e in self.events if 'data' in e]


@contextlib.contextmanager
def recording(out_path):
    import seismic_zfp.conversion as cv
    import seismic_zfp.conversion_utils as cu
    import seismic_zfp.cropping as cr
    rec = Recorder(out_path)
    mods = (cv, cu, cr)
    saved = [m.__dict__.get('open', None) for m in mods]
    for m in mods:
        m.open = rec.open
    try:
        yield rec
    finally:
        for m, s in zip(mods, saved):
            if s is None:
                del m.open
            else:
                m.open = s


def apply_prefix(writes, k, cut=None, base=b''):
    """file content after the first k writes (and `cut` bytes of write k+1), applied at their offsets, on top of what the path
    held when the writer had opened it (`base`: empty when the open truncates)"""
    buf = bytearray(base)
    seq = list(writes[:k])
    if cut is not None and k < len(writes):
        w = dict(writes[k])
        w['data'] = w['data'][:cut]
        seq.append(w)
    for w in seq:
        if w.get('shrink') is not None:
            del buf[w['shrink']:]
            continue
        end = w['off'] + len(w['data'])
        if end > len(buf):
            buf.extend(bytes(end - len(buf)))
        buf[w['off']:end] = w['data']
    return bytes(buf)
