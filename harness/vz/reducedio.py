"""Binding of spec/SgzReducedIo.tla: TLC enumerates the cases (grid, sorting, dead edge traces, ordinal window, extended textual
headers) and says for each whether the reduced-I/O reader is usable; a sample of them is converted for real, once per route.
Property: the two routes write the same samples (C01: the cube that is compressed does not depend on the route).  Conformance: the
reduced route is taken exactly when the model says so (the library warns when it falls back)."""
import os
import re

import numpy as np

from . import env, inputs, par, tlc

NZ = 6


FMT = {'ieee': 5, 'ibm': 1, 'int': 2}


def parse(out):
    text = re.sub(r'\s+', ' ', out)
    cases = []
    for m in re.finditer(r'<< ?"RIO", (\d+), (\d+), "(il|xl)", \{([\d, ]*)\}, << ?(\d+), (\d+), (\d+), (\d+) ?>>, (\d), "(ieee|ibm|int)", "(reduced|fallback|raise)", (TRUE|FALSE) ?>>', text):
        ni, nx, srt, dead, a, b, c, d, ext, fmt, outcome, tempting = m.groups()
        cases.append({'ni': int(ni), 'nx': int(nx), 'srt': srt, 'dead': [int(t) for t in dead.split(',') if t.strip()],
                      'win': [int(a), int(b), int(c), int(d)], 'ext': int(ext), 'fmt': fmt, 'outcome': outcome, 'tempting': tempting == 'TRUE'})
    return cases


def convert_both(case, d, tag):
    """-> (same samples?, what the reduce_iops=True conversion did: reduced | fallback | raise, shape right?, detail)"""
    from seismic_zfp.conversion import SegyConverter
    from seismic_zfp.read import SgzReader
    ni, nx, srt = case['ni'], case['nx'], case['srt']
    cube = (1.0 + np.arange(ni * nx * NZ, dtype=np.float32)).reshape(ni, nx, NZ) * np.float32(0.37)
    for t in case['dead']:         # file ordinal (1-based) -> grid position under the file's sorting
        i, x = ((t - 1) // nx, (t - 1) % nx) if srt == 'il' else ((t - 1) % ni, (t - 1) // ni)
        cube[i, x, :] = 0.0
    sgy = os.path.join(d, f'{tag}.sgy')
    inputs.write_segy(sgy, cube, np.arange(ni) + 1, np.arange(nx) + 1, np.arange(NZ) * 4.0, ext_text=case['ext'], sorting=srt, fmt=FMT[case.get('fmt', 'ieee')])
    a, b, c, dd = case['win']
    whole = [a, b, c, dd] == [0, ni, 0, nx]
    kw = {} if whole else dict(min_il=a, max_il=b, min_xl=c, max_xl=dd)
    # which route ran is observed at the reduced reader itself: its self test reads line 0 once, the route reads every line again
    import seismic_zfp.conversion_utils as cu
    calls = []
    orig = cu.MinimalInlineReader.read_line

    def counted(self, i):
        calls.append(i)
        return orig(self, i)
    vols, did = {}, None
    cu.MinimalInlineReader.read_line = counted
    try:
        for iops in (False, True):
            p = os.path.join(d, f'{tag}-{int(iops)}.sgz')
            del calls[:]
            try:
                with env.quiet():
                    with SegyConverter(sgy, **kw) as cv:
                        cv.run(p, bits_per_voxel=32, blockshape=(4, 4, -1), reduce_iops=iops)
                    with SgzReader(p) as r:
                        vols[iops] = np.array(r.read_volume(), copy=True)
                if iops:
                    did = 'fallback' if len(calls) < 2 else 'reduced'
            except RuntimeError:
                if not iops:
                    raise
                did = 'raise'           # the reduced reader refuses the sample format (no file is judged)
            if os.path.exists(p):
                os.remove(p)
    finally:
        cu.MinimalInlineReader.read_line = orig
    os.remove(sgy)
    want = cube[a:b, c:dd]
    right = vols[False].shape == want.shape     # (the segyio route itself is C01's / C11's subject; its shape is checked here as a sanity anchor)
    if did == 'raise':
        return True, did, right, ''
    same = vols[False].shape == vols[True].shape and np.array_equal(vols[False], vols[True])
    return same, did, right, (f'{int(np.count_nonzero(vols[False] != vols[True]))} samples differ' if (not same and vols[False].shape == vols[True].shape)
                              else ('' if same else f'shapes {vols[False].shape} / {vols[True].shape}'))


def _worker(item):
    k, case = item
    d = env.subdir(f'rio-{os.getpid()}')
    try:
        return convert_both(case, d, f'c{k}')
    except BaseException as e:
        if isinstance(e, (KeyboardInterrupt, SystemExit, MemoryError)):
            raise
        return ('error', f'{type(e).__name__}: {e}')


def case_of(c):
    return {'reduced_io': {k: c[k] for k in ('ni', 'nx', 'srt', 'dead', 'win', 'ext', 'fmt')}}


def run_pass(run, n, rng):
    run.mc('SgzReducedIo', 'MC_ReducedIo', workers=4)
    res = tlc.run('SgzReducedIo', 'Gen_ReducedIo', workers=1, timeout=1500, check_ok=False, small=True)
    run.add_tlc(res, 'Gen_ReducedIo')
    if not res['ok']:
        run.machinery(f"Gen_ReducedIo failed: {res['violated']}\n{res['output'][-600:]}")
        return
    cases = parse(res['output'])
    if len(cases) != res['distinct']:
        run.machinery(f"Gen_ReducedIo: parsed {len(cases)} of {res['distinct']} cases")
        return
    # the cases where a design mutant of the model would take the reduced route although the code must not (a self test passing on a
    # crossline-sorted file, a window that keeps every crossline); a sample of the rest
    hot = [c for c in cases if c['tempting']]
    rest = [c for c in cases if not c['tempting']]
    hot = [hot[i] for i in sorted(rng.choice(len(hot), size=min(len(hot), n // 2), replace=False))]
    pick = hot + [rest[i] for i in sorted(rng.choice(len(rest), size=min(len(rest), n - len(hot)), replace=False))]
    drifts = 0
    for c, r in zip(pick, par.pmap(_worker, list(enumerate(pick)), chunksize=8)):
        case = case_of(c)
        run.case(case, nontrivial=True)
        if isinstance(r, par.Crash) or r[0] == 'error':
            run.fail('C01.reduced-route-converts', case, str(r), 'a file by either route')
            continue
        same, did, right, detail = r
        run.check(same and right, 'C01.reduced-route-same-samples', case, detail, 'the samples the segyio route writes')
        if did != c['outcome']:
            drifts += 1
            if drifts <= 5:
                run.drift(f"SgzReducedIo!Outcome = {c['outcome']} for {case['reduced_io']}, the converter: {did}")
        elif same:
            run.traces_validated += 1
    run.extra['reduced_io'] = {'model_cases': len(cases), 'converted': len(pick), 'cases only the sorting / shape guard keeps off the reduced route': len(hot), 'drifting': drifts}


def replay(run, rep):
    c = rep['case']['reduced_io']
    d = env.subdir(f'rio-{os.getpid()}')
    r = convert_both(c, d, 'replay')
    run.check(r[0] and r[2], rep['clause'], rep['case'], r[3], None)
