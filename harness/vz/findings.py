"""Run context: named clauses, failures, known-finding matching, VIOLATION / KNOWN-FINDING lines,
replay files, evidence."""
import hashlib
import json
import os
import sys
import time

from . import env

KNOWN = os.path.join(env.VERIF, 'known_findings.json')


def canon(x):
    return json.dumps(x, sort_keys=True, default=str, separators=(',', ':'))


def _match_value(pat, val):
    if isinstance(pat, dict):
        if 'in' in pat:
            return val in pat['in']
        if 'ge' in pat:
            return val is not None and val >= pat['ge']
        if 'not' in pat:
            return val != pat['not']
        if 'contains' in pat:
            return val is not None and pat['contains'] in val
        return False
    return pat == val


class Run:
    def __init__(self, prop, tier, seed):
        self.prop, self.tier, self.seed = prop, tier, seed
        self.t0 = time.time()
        self.clauses = {}            # clause -> evaluations
        self.failures = []           # dicts
        self.samples = []
        self.cases = 0
        self.nontrivial = set()
        self.tlc = {'states': 0, 'transitions': 0, 'runs': [], 'coverage': {}}
        self.traces_validated = 0
        self.notes = []
        self.extra = {}
        self.exhaustive = False
        self.machinery_errors = []
        with open(KNOWN) as f:
            self.known = [k for k in json.load(f)['findings'] if k['property'] == prop]
        self.fresh_replays = True

    # ---- bookkeeping -------------------------------------------------------------------------
    def add_tlc(self, res, name):
        self.tlc['states'] += res.get('distinct', 0)
        self.tlc['transitions'] += res.get('generated', 0)
        self.tlc['runs'].append({'spec': name, 'distinct': res.get('distinct', 0), 'generated': res.get('generated', 0),
                                 'depth': res.get('depth', 0), 'wall_s': round(res.get('wall_s', 0), 2)})
        for k, v in res.get('coverage', {}).items():
            self.tlc['coverage'][name + '.' + k] = v

    def case(self, case, nontrivial=True):
        """count one explored case; returns its canonical key"""
        self.cases += 1
        if nontrivial:
            self.nontrivial.add(hashlib.sha1(canon(case).encode()).hexdigest()[:16])
        if len(self.samples) < 6 or (self.cases % 997 == 0 and len(self.samples) < 12):
            self.samples.append(case)

    def ok(self, clause, n=1):
        self.clauses[clause] = self.clauses.get(clause, 0) + n

    def fail(self, clause, case, observed=None, expected=None):
        self.clauses[clause] = self.clauses.get(clause, 0) + 1
        self.failures.append({'clause': clause, 'case': case, 'observed': observed, 'expected': expected})

    def check(self, cond, clause, case, observed=None, expected=None):
        if cond:
            self.ok(clause)
        else:
            self.fail(clause, case, observed, expected)
        return cond

    def drift(self, msg):
        """the code no longer follows the implementation-shaped model on a non-property observable"""
        d = self.extra.setdefault('model_drift', [])
        if len(d) < 20:
            d.append(msg)
        self.extra['model_drift_count'] = self.extra.get('model_drift_count', 0) + 1

    def mc(self, spec, cfg, workers=16, timeout=3000):
        """exhaustive TLC run of the design-level model; a failure here is a machinery failure (the model is static)"""
        from . import tlc
        try:
            res = tlc.run(spec, cfg, workers=workers, timeout=timeout, check_ok=False)
        except tlc.TlcError as e:
            self.machinery(str(e))
            return None
        self.add_tlc(res, cfg)
        if not res['ok']:
            self.machinery(f"TLC did not pass {spec}/{cfg}: violated={res['violated']}\n" + res['output'][-1500:])
        return res

    def machinery(self, msg):
        self.machinery_errors.append(msg)

    # ---- verdict -----------------------------------------------------------------------------
    def _known_for(self, f):
        for k in self.known:
            if k.get('status') != 'open':
                continue
            if k['clause'] != f['clause']:
                continue
            m = k.get('match', {})
            if all(_match_value(p, f['case'].get(key) if isinstance(f['case'], dict) else None) for key, p in m.items()):
                return k
        return None

    def finish(self, level='model_checking', rule='', assumptions=(), trusted=()):
        hit, viol = {}, []
        for f in self.failures:
            k = self._known_for(f)
            if k is not None:
                hit.setdefault(k['id'], [k, 0])[1] += 1
            else:
                viol.append(f)
        for kid, (k, cnt) in sorted(hit.items()):
            print(f"KNOWN-FINDING: property={self.prop} {kid}: {k['what']} [{cnt} case(s) this run]")
        seen = set()
        rdir = os.path.join(env.VERIF, 'replays', self.prop)
        # the 25 replay files are dealt out clause by clause (the first failure of every clause, then the second of every clause, ...)
        by_clause = {}
        for f in viol:
            by_clause.setdefault(f['clause'], []).append(f)
        ordered = [v[k] for k in range(max([len(v) for v in by_clause.values()] or [0])) for v in by_clause.values() if k < len(v)] \
            if len(by_clause) > 1 else viol
        for f in ordered:
            key = hashlib.sha1(canon([f['clause'], f['case']]).encode()).hexdigest()[:16]
            if key in seen:
                continue
            seen.add(key)
            if len(seen) > 25:
                continue
            os.makedirs(rdir, exist_ok=True)
            if self.fresh_replays:          # replay files of earlier runs are stale
                self.fresh_replays = False
                for old in os.listdir(rdir):
                    if old.endswith('.json'):
                        os.remove(os.path.join(rdir, old))
            path = os.path.join(rdir, key + '.json')
            with open(path, 'w') as fh:
                json.dump({'property': self.prop, 'clause': f['clause'], 'case': f['case'],
                           'observed': f['observed'], 'expected': f['expected']}, fh, indent=1, default=str)
            print(f"VIOLATION property={self.prop} replay={path}")
            print(f"  clause={f['clause']} case={canon(f['case'])[:300]}")
            print(f"  observed={str(f['observed'])[:300]} expected={str(f['expected'])[:300]}")
        wall = time.time() - self.t0
        cov = {
            'states': self.tlc['states'], 'transitions': self.tlc['transitions'],
            'traces_validated_against_impl': self.traces_validated,
            'samples': self.samples[:12] or [{'note': 'no case explored'}],
            'evaluations': self.cases, 'distinct_nontrivial': len(self.nontrivial), 'rule': rule,
            'clauses': self.clauses, 'tlc_runs': self.tlc['runs'], 'action_coverage': self.tlc['coverage'],
            'exhaustive': bool(self.exhaustive), 'known_findings_hit': sorted(hit.keys()),
            'checker_cmd': 'java -cp tla2tools.jar tlc2.TLC (see tlc_runs)', 'trusted_base': list(trusted),
            'notes': self.notes,
        }
        cov.update(self.extra)
        ev = {'property_id': self.prop, 'tier': self.tier, 'seed': self.seed, 'level': level, 'coverage': cov,
              'assumptions': list(assumptions), 'wall_s': round(wall, 2), 'violations': len(seen)}
        os.makedirs(os.path.join(env.VERIF, 'evidence'), exist_ok=True)
        with open(os.path.join(env.VERIF, 'evidence', self.prop + '.json'), 'w') as fh:
            json.dump(ev, fh, indent=1, default=str)
        if self.machinery_errors:
            for m in self.machinery_errors[:10]:
                print('MACHINERY-ERROR:', m, file=sys.stderr)
            if not viol:      # a failing real execution is a violation whatever else went wrong around it
                print(f'{self.prop}: machinery failure ({len(self.machinery_errors)})')
                return 2
        if viol:
            per = {}
            for f in viol:
                per[f['clause']] = per.get(f['clause'], 0) + 1
            for c, n in sorted(per.items()):
                print(f'  violations of {c}: {n}')
            print(f'{self.prop}: {len(seen)} distinct violation(s) in {self.cases} cases, {wall:.1f}s')
            return 1
        print(f"{self.prop}: held on {self.cases} cases ({len(self.nontrivial)} distinct non-trivial), "
              f"{sum(self.clauses.values())} clause evaluations, TLC states={self.tlc['states']}, "
              f"known findings hit={sorted(hit.keys())}, {wall:.1f}s")
        return 0
