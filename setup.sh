#!/bin/sh
# Offline setup: nothing to build; verify the tools the checks need are present.
set -e
cd "$(dirname "$0")"
command -v java >/dev/null
test -f /opt/veriftools/tla/tla2tools.jar
test -f shadow/seismic_zfp-0.2.9.dist-info/METADATA
mkdir -p evidence replays
cd harness && /venv/bin/python -W ignore -c "
from vz import env; env.activate()
from vz import codec
assert codec.self_check(0), 'zfpy block independence'
print('setup ok')"
