----------------------------- MODULE SgzGeometry -----------------------------
(***************************************************************************)
(* C05 (and the axis half of C10 / C11 / C12): how an axis travels through *)
(* the file.  A line axis is a triple (start, step, count); the writer     *)
(* packs start and step as W-bit two's-complement words (conversion_utils  *)
(* make_header: struct '<i'), the reader reads them UNSIGNED, builds       *)
(* start + k*step in wide integers (utils.gen_coord_list) and wraps the    *)
(* result to W bits (astype('intc')).  W = 32 in the code; the model is    *)
(* exhaustive at small W and the harness maps every model triple to the    *)
(* real width by the scaling v -> v * 2^(32-W), which commutes with the    *)
(* wrap.  The sample axis is start (whole ms, signed) + interval (whole    *)
(* microseconds, unsigned); its unit depends on the recorded version.      *)
(***************************************************************************)
EXTENDS Integers, Sequences

CONSTANTS W,        \* word width of the model
          GBug      \* "none" | design mutants: "signed_read" (reader reads start/step signed, no wrap), "swap_steps" (il/xl step
                    \*   fields exchanged), "trunc_interval" (interval stored in ms for a post-0.1.6 file), "crop_origin" (cropped
                    \*   file keeps the source origin), "count_field" (structured flag from the grid although the count field is present),
                    \*   "crop_keep_f64" (a crop that starts on a whole millisecond leaves the float64 origin of its source untouched),
                    \*   "crop_trunc" (a crop records its first sample only in the whole-millisecond word: the code before fa3b7fb)

M  == 2 ^ W
Lo == 0 - 2 ^ (W - 1)
Hi == 2 ^ (W - 1) - 1
InRange(v) == Lo <= v /\ v <= Hi

PackSigned(v) == v % M                       \* the W stored bits, as an unsigned number (TLA+ % is non-negative)
WrapSigned(u) == LET r == u % M IN IF r > Hi THEN r - M ELSE r       \* astype('intc')

Axis(a) == [k \in 1..a.count |-> a.start + (k - 1) * a.step]
AxisOK(a) == a.step # 0 /\ a.count >= 2 /\ \A k \in 1..a.count : InRange(a.start + (k - 1) * a.step)

\* header words written for a line axis, and the axis the reader regenerates from them
EncAxis(a) == [start |-> PackSigned(a.start), step |-> PackSigned(a.step), count |-> a.count]
DecAxis(h) == IF GBug = "signed_read"
              THEN [k \in 1..h.count |-> WrapSigned(h.start) + (k - 1) * h.step]
              ELSE [k \in 1..h.count |-> WrapSigned(h.start + (k - 1) * h.step)]

(***************************************************************************)
(* A file's geometry block: two line axes, the sample axis, counts.        *)
(* G = [il, xl: axis triples, z0 (ms), dz (microseconds), nz, ntr,         *)
(*      post016, post021: version gates, dim]                              *)
(***************************************************************************)
EncGeom(G) ==
    [il |-> EncAxis(IF GBug = "swap_steps" THEN [G.il EXCEPT !.step = G.xl.step] ELSE G.il),
     xl |-> EncAxis(IF GBug = "swap_steps" THEN [G.xl EXCEPT !.step = G.il.step] ELSE G.xl),
     z0 |-> PackSigned(G.z0),
     dz |-> IF (G.post016 \/ G.dim = 2) /\ GBug # "trunc_interval" THEN G.dz ELSE G.dz \div 1000,
     nz |-> G.nz, ntr |-> G.ntr, post016 |-> G.post016, post021 |-> G.post021, dim |-> G.dim,
     \* float64 sample-axis fields (bytes 84-99): unused by the SEG-Y / NumPy writers; readers prefer them when the interval is non-zero
     fused |-> FALSE, fz0us |-> 0]

\* what a reader reports: axes, sample axis as <<start ms, interval in microseconds>> (exact), trace count, structured
DecGeom(H) ==
    LET ni == H.il.count
        nx == H.xl.count
        ntr == IF H.post021 /\ GBug # "count_field" THEN H.ntr ELSE ni * nx
    IN  [il |-> DecAxis(H.il), xl |-> DecAxis(H.xl),
         z0 |-> WrapSigned(H.z0), dz_us |-> IF H.post016 \/ H.dim = 2 THEN H.dz ELSE H.dz * 1000, nz |-> H.nz,
         z0us |-> IF H.fused THEN H.fz0us ELSE WrapSigned(H.z0) * 1000,        \* the first sample time a reader reports, in microseconds
         ntr |-> ntr, structured |-> (H.dim = 3 /\ ntr = ni * nx)]

Preserved(G) ==
    LET R == DecGeom(EncGeom(G))
    IN  /\ R.il = Axis(G.il) /\ R.xl = Axis(G.xl)
        /\ R.z0 = G.z0 /\ R.z0us = G.z0 * 1000 /\ R.nz = G.nz
        /\ (G.post016 \/ G.dz % 1000 = 0) => R.dz_us = G.dz
        /\ R.ntr = G.ntr
        /\ R.structured = (G.ntr = G.il.count * G.xl.count)

(***************************************************************************)
(* Writers that start from a file: crop (cropping.py regenerate_header:    *)
(* origin words from the source AXIS VALUES at the first kept index,       *)
(* counts from the box; steps copied) and re-block (header copied).        *)
(* box = [i0,i1,x0,x1,z0,z1] half-open, already aligned and clipped.       *)
(***************************************************************************)
SubSeqOf(s, lo, hi) == [k \in 1..(hi - lo) |-> s[lo + k]]
CropGeom(H, box) ==
    LET R == DecGeom(H)
        keep == GBug = "crop_origin"
    IN  [H EXCEPT !.il = [start |-> IF keep THEN H.il.start ELSE PackSigned(R.il[box.i0 + 1]), step |-> H.il.step, count |-> box.i1 - box.i0],
                  !.xl = [start |-> IF keep THEN H.xl.start ELSE PackSigned(R.xl[box.x0 + 1]), step |-> H.xl.step, count |-> box.x1 - box.x0],
                  \* the origin word is whole milliseconds: the first kept sample time is truncated to it, and recorded exactly in
                  \* the float64 fields when it is not a whole millisecond (or when the source already uses them)
                  !.z0 = PackSigned((R.z0us + box.z0 * R.dz_us) \div 1000),
                  !.fused = H.fused \/ (GBug # "crop_trunc" /\ (R.z0us + box.z0 * R.dz_us) % 1000 # 0),
                  !.fz0us = IF GBug = "crop_keep_f64" /\ (R.z0us + box.z0 * R.dz_us) % 1000 = 0 THEN H.fz0us ELSE R.z0us + box.z0 * R.dz_us,
                  !.nz = box.z1 - box.z0,
                  !.ntr = (box.i1 - box.i0) * (box.x1 - box.x0)]

CropPreserves(G, box) ==
    LET H == EncGeom(G)
        S == DecGeom(H)
        C == DecGeom(CropGeom(H, box))
    IN  /\ C.il = SubSeqOf(S.il, box.i0, box.i1) /\ C.xl = SubSeqOf(S.xl, box.x0, box.x1)
        /\ C.nz = box.z1 - box.z0 /\ C.dz_us = S.dz_us
        \* the first sample of the crop is the source's sample at the first kept index, exactly
        /\ InRange((S.z0us + box.z0 * S.dz_us) \div 1000) => C.z0us = S.z0us + box.z0 * S.dz_us
        /\ C.structured /\ C.ntr = (box.i1 - box.i0) * (box.x1 - box.x0)
\* two vertical crops in a row (the second on a file that may already use the float64 fields)
Crop2Preserves(G, z1, z2) ==
    LET H == EncGeom(G)
        S == DecGeom(H)
        full(n, z) == [i0 |-> 0, i1 |-> G.il.count, x0 |-> 0, x1 |-> G.xl.count, z0 |-> z, z1 |-> n]
        H1 == CropGeom(H, full(G.nz, z1))
        C == DecGeom(CropGeom(H1, full(G.nz - z1, z2)))
    IN  InRange((S.z0us + (z1 + z2) * S.dz_us) \div 1000) => (C.z0us = S.z0us + (z1 + z2) * S.dz_us /\ C.nz = G.nz - z1 - z2 /\ C.dz_us = S.dz_us)
=============================================================================
