CONSTANT NBlk = 3
CONSTANT NArr = 2
CONSTANT Patch = TRUE
CONSTANT OldLen = 12
CONSTANT PBug = "none"
SPECIFICATION PSpec
INVARIANT InRangeIsFinal
INVARIANT InterimHarmless
INVARIANT Complete
CHECK_DEADLOCK FALSE
