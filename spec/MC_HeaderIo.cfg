CONSTANT DiskBlockBytes = 64
CONSTANT IoBug = "none"
CONSTANT D = 4
CONSTANT NA = 3
SPECIFICATION Spec
INVARIANT PInFooter
INVARIANT PAnswerable
INVARIANT PFourBytes
INVARIANT PWarm
CHECK_DEADLOCK FALSE
