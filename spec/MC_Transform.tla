----------------------------- MODULE MC_Transform -----------------------------
(* C10 / C12 exhaustive at a scaled disk block: every source extent up to two blocks (+1) per axis for each layout family,
   every index box (aligned or not, inside, clipped, None) for the cropper; every extent below / at / above one and two target
   blocks for the re-blocker.  Staged so that TLC's workers share the work. *)
EXTENDS SgzTransform, TLC
CONSTANTS Tier, Part
VARIABLES b, ns, box
tvars == <<b, ns, box>>
Q == Tier = "quick"
File(n, bb) == [dim |-> 3, n |-> n, b |-> bb, ub |-> 16, hblk |-> 2, padfoot |-> TRUE, narr |-> 0, ntr |-> n[1] * n[2]]
Layouts == IF Part = "crop" THEN (IF Q THEN {<<4, 4, 16>>, <<8, 8, 4>>, <<4, 8, 8>>} ELSE {<<4, 4, 16>>, <<8, 8, 4>>, <<4, 8, 8>>, <<8, 4, 8>>, <<16, 4, 4>>}) ELSE {<<4, 4, 16>>}
Ns(m) == IF Part = "reblock" THEN (IF Q THEN {2, 4, 5, 8, 9, 12, 16, 17} ELSE 2..18)
         ELSE IF Q THEN {m + 1, 2 * m + 1} ELSE {2, m - 1, m, m + 1, 2 * m, 2 * m + 1}
Nz(m) == IF Part = "reblock" THEN {2, 4, 5, 17, 33} ELSE Ns(m)
Init == b \in Layouts /\ ns = <<>> /\ box = <<>>
\* bounds on every residue class of the blockshape that the axis allows: at, just below and just above each block boundary
Bnd(n, m) == {v \in (IF Q THEN {0, 1, m, m + 1, n} ELSE {0, 1, m - 1, m, m + 1, 2 * m - 1, 2 * m, n - 1, n}) : 0 <= v /\ v <= n}
Ranges(n, m) == {<<>>} \cup {<<lo, hi>> : lo \in Bnd(n, m), hi \in Bnd(n, m)}
Next == \/ /\ Len(ns) < 3
           /\ \E v \in (IF Len(ns) = 2 THEN Nz(b[3]) ELSE Ns(b[Len(ns) + 1])) : ns' = Append(ns, v)
           /\ UNCHANGED <<b, box>>
        \/ /\ Part = "crop" /\ Len(ns) = 3 /\ Len(box) < 3
           /\ \E r \in Ranges(ns[Len(box) + 1], b[Len(box) + 1]) : box' = Append(box, r)
           /\ UNCHANGED <<b, ns>>
Spec == Init /\ [][Next]_tvars
F == File(ns, b)
PCrop == (Part = "crop" /\ Len(box) = 3 /\ ~CropRefused(F, box)) => CropOK(F, box)
PRefuse == (Part = "crop" /\ Len(box) = 3) => (CropRefused(F, box) <=> (box = <<<<>>, <<>>, <<>>>> \/ \E a \in 1..3 : box[a] # <<>> /\ box[a][1] >= box[a][2]))
PReblock == (Part = "reblock" /\ Len(ns) = 3) => (ReblockSupported(F, 8) /\ ReblockOK(F, 8))
=============================================================================
