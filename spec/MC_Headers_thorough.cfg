CONSTANT HBug = "none"
CONSTANT NFm = 4
CONSTANT Vals = {0, 1}
SPECIFICATION MCSpec
INVARIANT PReadable
INVARIANT PThorough
INVARIANT PHeuristic
INVARIANT PStrip
INVARIANT PNumpy
INVARIANT PTableNames
INVARIANT PGrid
CHECK_DEADLOCK FALSE
