"""C16 writer pipeline: TLC checks SgzWriter (all interleavings: safety, no late write, termination) for the
configuration each real conversion has; a path set covering every edge of TLC's state graph is replayed step by step
through the cooperative scheduler on the unmodified code; seeded random schedules are run as well; every executed
trace is validated by TLC against Trace_Writer; every execution must return, leave a file byte-identical to the
strictly sequential execution's and write nothing after returning."""
import functools
import hashlib
import json
import os
import re
from concurrent.futures import ThreadPoolExecutor

import numpy as np
import segyio

from .. import env, inputs, par, sched, stall, tlc, writers

FINISH = dict(
    level='model_checking',
    rule='per route (NumPy plane-set and per-block layouts, SEG-Y heuristic / thorough with in-place patches, 2-D) x plane sets '
         '1..3 x queue capacity {1,2,16}: TLC explores all interleavings of SgzWriter; schedules = edge cover of the dumped state '
         'graph + seeded random ones, forced on the real threads; non-trivial = distinct (config, schedule) with at least one preemption',
    assumptions=['scheduling points are queue operations, thread starts, file writes, flush and return; zfpy compression and segyio reads '
                 'between two points are atomic for the property'],
    trusted=['zfpy', 'numpy', 'segyio', 'TLC'])


def configs(run):
    """(label, thunk(path, cap), rate)"""
    d = env.subdir('c16src')
    out = []
    quick = run.tier == 'quick'

    def numpy_route(shape, rate, bs):
        cube = inputs.cube(shape, run.seed + shape[0])
        if shape[0] == 11:          # samples that are not numbers (the file and its hash are still a function of the input alone)
            cube[1, 2, 3], cube[5, 0, 7], cube[10, 4, 39] = np.nan, np.inf, -np.inf

        def thunk(p, cap):
            import seismic_zfp.conversion as cv
            orig = cv.run_conversion_loop
            cv.run_conversion_loop = functools.partial(orig, queue_size=cap)
            try:
                writers.numpy_to_sgz(p, cube, rate, bs)
            finally:
                cv.run_conversion_loop = orig
        return thunk

    def segy_route(sgy, rate, bs, **kw):
        def thunk(p, cap):
            from seismic_zfp.conversion import SegyConverter
            with env.quiet():
                with SegyConverter(sgy) as c:
                    # queue length = min(16, (mem_limit // 2) // inline_set_bytes): choose mem_limit for the wanted capacity
                    c._cap = cap
                    orig = c.check_memory

                    def check_memory(inline_set_bytes):
                        c.mem_limit = 2 * inline_set_bytes * cap + 1 if cap < 16 else c.mem_limit
                        return orig(inline_set_bytes=inline_set_bytes)
                    c.check_memory = check_memory
                    c.run(p, bits_per_voxel=rate, blockshape=bs, **kw)
        return thunk

    for nps in ((1, 2, 3) if not quick else (1, 3)):
        out.append((f'numpy planesets={nps} (4,4,-1)', numpy_route((4 * nps - 1, 5, 40), 16, (4, 4, -1)), 16))
    out.append(('numpy per-block (8,8,16) 2 plane sets', numpy_route((9, 9, 20), 32, (8, 8, 16)), 32))
    cube = inputs.cube((7, 5, 40), run.seed + 1)
    sgy = os.path.join(d, 'r.sgy')
    inputs.write_segy(sgy, cube, np.arange(7) + 10, np.arange(5) * 2 + 20, np.arange(40) * 4.0)
    out.append(('segy heuristic planesets=2', segy_route(sgy, 16, (4, 4, -1)), 16))
    out.append(('segy thorough planesets=2', segy_route(sgy, 16, (4, 4, -1), header_detection='thorough'), 16))
    # three plane sets at capacity 1: the producer can be two plane sets ahead of a compressor that holds one (a buffer handed over
    # without a copy must not be refilled)
    cube3 = inputs.cube((11, 5, 40), run.seed + 5)
    sgy3 = os.path.join(d, 'r3.sgy')
    inputs.write_segy(sgy3, cube3, np.arange(11) + 10, np.arange(5) * 2 + 20, np.arange(40) * 4.0)
    out.append(('segy heuristic planesets=3', segy_route(sgy3, 16, (4, 4, -1)), 16))
    # the SEG-Y producer's brick route (blocks cut out of the plane-set buffer and queued one by one)
    out.append(('segy per-block (8,8,16) 2 plane sets', segy_route(sgy3, 32, (8, 8, 16)), 32))
    # a survey with holes (the placement route writes only the traces that exist: whatever else the buffer holds is compressed too)
    sgyh = os.path.join(d, 'holes.sgy')
    cells = [(i, x) for i in range(7) for x in range(5) if (i, x) not in ((0, 3), (2, 2), (5, 0), (6, 4))]
    hdrh = [{segyio.TraceField.INLINE_3D: 10 + i, segyio.TraceField.CROSSLINE_3D: 20 + 2 * x, segyio.TraceField.CDP: t + 1} for t, (i, x) in enumerate(cells)]
    inputs.write_segy_traces(sgyh, inputs.cube((len(cells), 40), run.seed + 9), np.arange(40) * 4.0, hdrh)
    out.append(('segy with holes planesets=2', segy_route(sgyh, 16, (4, 4, -1)), 16))
    if not quick:
        out.append(('segy reduce_iops planesets=2', segy_route(sgy, 16, (4, 4, -1), reduce_iops=True), 16))
        out.append(('segy strip planesets=2', segy_route(sgy, 16, (4, 4, -1), header_detection='strip'), 16))
    sgy2 = os.path.join(d, 'l.sgy')
    data = inputs.cube((9, 40), run.seed + 2)
    hdrs = [{segyio.TraceField.CDP_X: 100 + t, segyio.TraceField.CDP: t + 1} for t in range(9)]
    inputs.write_segy_traces(sgy2, data, np.arange(40) * 4.0, hdrs)
    out.append(('segy 2d groups=3 (1,4,-1)', segy_route(sgy2, 8, (1, 4, -1)), 8))
    return out


def action_of(e, state):
    """raw scheduler event -> SgzWriter action name (None if the event has no counterpart)"""
    t, op = e['tid'], e['op']
    if op == 'start':
        return {'C': 'MStartC', 'W': 'MStartW'}.get(e['who'])
    if op == 'put':
        return 'MPut' if (t == 'M' and e['q'] == 'cq') else 'CPut' if (t == 'C' and e['q'] == 'wq') else None
    if op == 'get':
        return 'CGet' if (t == 'C' and e['q'] == 'cq') else 'WGet' if (t == 'W' and e['q'] == 'wq') else None
    if op == 'task_done':
        return 'CDone' if (t == 'C' and e['q'] == 'cq') else 'WDone' if (t == 'W' and e['q'] == 'wq') else None
    if op == 'join':
        return 'MJoinC' if (t == 'M' and e['q'] == 'cq') else 'MJoinW' if (t == 'M' and e['q'] == 'wq') else None
    if op == 'flush':
        return 'MFlush' if t == 'M' else None
    if op == 'return':
        return 'MReturn'
    if op == 'write':
        if t == 'W':
            return 'WHeader' if e['first'] else 'WWrite'
        if t == 'M':
            if e['h'] == 1:
                return 'MFooter'
            return {64: 'MCount', 980: 'MTable', 960: 'MHash'}.get(e['off'])
    return None


def to_trace(events):
    tr = []
    for e in events:
        a = action_of(e, None)
        tr.append({'a': a or f"?{e['tid']}.{e['op']}", 'item': e.get('item', 0), 'qlen': e.get('qlen', 0), 'unf': e.get('unfinished', 0)})
    return tr


def constants_of(events):
    acts = [action_of(e, None) for e in events]
    return {'N': acts.count('MPut'), 'NFooter': acts.count('MFooter'), 'Patch': 'MCount' in acts}


def cfg_text(c, cap, spec='Spec', props=True, extra=''):
    s = (f"CONSTANT N = {c['N']}\nCONSTANT Cap = {cap}\nCONSTANT NFooter = {c['NFooter']}\n"
         f"CONSTANT Patch = {'TRUE' if c['Patch'] else 'FALSE'}\nCONSTANT Mutant = \"none\"\nSPECIFICATION {spec}\n")
    if props:
        s += 'INVARIANT FileIsSequential\nINVARIANT DataPrefix\nINVARIANT DeadlockFree\nINVARIANT TypeOK\nPROPERTY NoLateWrite\nPROPERTY Termination\n'
    return s + extra + 'CHECK_DEADLOCK FALSE\n'


def parse_dot(path):
    edges, init = [], None
    pat = re.compile(r'^(-?\d+) -> (-?\d+) \[label="(\w+)"')
    with open(path) as f:
        for line in f:
            m = pat.match(line)
            if m:
                edges.append((m.group(1), m.group(2), m.group(3)))
            elif init is None and 'style = filled' in line:
                init = line.split(' ', 1)[0]
    return init, edges


def edge_cover(init, edges, limit=None):
    """paths (lists of action labels) from init to a terminal state covering every edge (the graph is acyclic)"""
    out = {}
    for a, b, l in edges:
        out.setdefault(a, []).append((b, l))
    uncovered = set((a, b, l) for a, b, l in edges if a != b)
    # distance to the nearest uncovered edge is recomputed lazily by DFS with memo per round
    paths = []
    while uncovered and (limit is None or len(paths) < limit):
        memo = {}

        def reach(s):
            """number of uncovered edges on the best path from s (greedy upper bound)"""
            if s in memo:
                return memo[s]
            memo[s] = 0
            best = 0
            for b, l in out.get(s, []):
                if b == s:
                    continue
                v = reach(b) + (1 if (s, b, l) in uncovered else 0)
                best = max(best, v)
            memo[s] = best
            return best
        s, path = init, []
        while True:
            succ = [(b, l) for b, l in out.get(s, []) if b != s]
            if not succ:
                break
            b, l = max(succ, key=lambda x: reach(x[0]) + (1 if (s, x[0], x[1]) in uncovered else 0))
            uncovered.discard((s, b, l))
            path.append(l)
            s = b
        paths.append(path)
    return paths


def run_schedule(item):
    """worker: one forced execution -> result summary"""
    ci, cap, kind, sched_spec = item
    label, thunk, rate = par.G['configs'][ci]
    ref = par.G['ref'].get((ci, cap))
    d = env.subdir(f'c16x{os.getpid()}')
    p = os.path.join(d, 'o.sgz')
    if kind == 'path':
        chooser = sched.from_roles([a[0] for a in sched_spec])
    elif kind == 'seed':
        chooser = sched.seeded(sched_spec)
    else:
        chooser = sched.sequential
    if os.path.exists(p):
        os.remove(p)
    r = sched.execute(lambda: thunk(p, cap), p, rate, chooser)
    data = open(p, 'rb').read() if os.path.exists(p) else b''
    acts = [action_of(e, None) for e in r['events']]
    roles = [e['tid'] for e in r['events']]
    preempt = sum(1 for i in range(1, len(roles)) if roles[i] != roles[i - 1])
    return {'outcome': r['outcome'], 'error': r['error'], 'late': len(r['late']), 'sha': hashlib.sha1(data).hexdigest(), 'len': len(data),
            'acts': acts, 'trace': to_trace(r['events']), 'preempt': preempt, 'same': (ref is None or data == ref),
            'data': data if ref is None else None, 'pending': r.get('pending')}


def run(run):
    quick = run.tier == 'quick'
    cfgs = configs(run)
    caps = (1, 2, 16)
    par.G['configs'] = cfgs
    par.G['ref'] = {}
    d = env.subdir('c16')
    # ---- reference: the strictly sequential execution of every configuration
    refs = {}
    stall_only = []
    for ci, (label, thunk, rate) in enumerate(cfgs):
        for cap in caps:
            r = run_schedule((ci, cap, 'sequential', None))
            case = {'config': label, 'cap': cap, 'schedule': 'sequential'}
            run.case(case, nontrivial=False)
            if r['outcome'] != 'returned' and "object has no attribute" in str(r['error']) and ('SchedQueue' in str(r['error']) or 'SchedFile' in str(r['error']) or 'SchedThread' in str(r['error'])):
                # the code reaches into the queue / thread / file object beyond the interface the cooperative scheduler stands in for: no verdict
                # from this pass (a harmless peek would look the same); the stall pass runs the real objects and decides
                run.drift(f'{label} cap={cap}: the cooperative scheduler cannot stand in for this code ({r["error"]}); stall pass only')
                with env.quiet():
                    pp = os.path.join(env.subdir(f'c16u{os.getpid()}'), 'ref.sgz')
                    r0 = stall.execute(lambda: thunk(pp, cap), pp, None)
                if r0['error'] is None:
                    par.G['ref'][(ci, cap)] = r0['data']
                    stall_only.append((ci, cap))
                else:
                    run.fail('C16.terminates', case, r0['error'], 'returned')
                continue
            if not run.check(r['outcome'] == 'returned' and r['late'] == 0, 'C16.terminates', case, (r['outcome'], r['error'], r['pending']), 'returned'):
                continue
            refs[(ci, cap)] = r
            par.G['ref'][(ci, cap)] = r['data']
        # the output must not depend on the capacity either
        shas = {refs[(ci, cap)]['sha'] for cap in caps if (ci, cap) in refs}
        run.check(len(shas) <= 1, 'C16.same-file', {'config': label, 'schedule': 'sequential', 'cap': 'all'}, sorted(shas), 'one file')
    # ---- TLC: all interleavings of the model with each configuration's constants; dump the state graph
    jobs = [(ci, cap) for (ci, cap) in refs]

    def mc(job):
        ci, cap = job
        c = constants_of([{'tid': 'X', 'op': 'x'}]) if False else None
        consts = const_from_acts(refs[job]['acts'])
        name = f'w_{ci}_{cap}'
        with open(os.path.join(env.SPEC, f'_{name}.cfg'), 'w') as f:
            f.write(cfg_text(consts, cap))
        dot = os.path.join(d, name + '.dot')
        try:
            res = tlc.run('MC_Writer', f'_{name}', workers=1, timeout=900, args=['-dump', 'dot,actionlabels', dot], check_ok=False, small=True)
        finally:
            os.remove(os.path.join(env.SPEC, f'_{name}.cfg'))
        return res, dot, consts

    with ThreadPoolExecutor(max_workers=16) as ex:
        mcs = list(ex.map(mc, jobs))
    items = []
    meta = []
    for job, (res, dot, consts) in zip(jobs, mcs):
        ci, cap = job
        label = cfgs[ci][0]
        run.add_tlc(res, f'MC_Writer[{label},cap={cap},N={consts["N"]}]')
        if not res['ok']:
            run.machinery(f"MC_Writer failed for {label} cap={cap}: {res['violated']}\n{res['output'][-600:]}")
            continue
        init, edges = parse_dot(dot)
        paths = edge_cover(init, edges)
        if quick and len(paths) > 40:
            rng = np.random.default_rng(run.seed + ci + cap)
            keep = sorted(rng.choice(len(paths), size=40, replace=False).tolist())
            paths = [paths[i] for i in keep]
        run.extra.setdefault('graph', {})[f'{label} cap={cap}'] = {'states': res['distinct'], 'edges': len(edges), 'paths': len(paths)}
        for pth in paths:
            items.append((ci, cap, 'path', pth))
        for s in range(6 if quick else 60):
            items.append((ci, cap, 'seed', run.seed * 1000 + s))
    results = par.pmap(run_schedule, items)
    traces = {}
    for item, r in zip(items, results):
        ci, cap, kind, spec = item
        label = cfgs[ci][0]
        case = {'config': label, 'cap': cap, 'schedule': {'kind': kind, 'spec': spec if kind == 'seed' else ''.join(a[0] for a in spec)}}
        if isinstance(r, par.Crash):
            run.fail('C16.terminates', case, f'worker died {r}', 'returned')
            continue
        run.case(case, nontrivial=r['preempt'] > 2)
        if r['outcome'] == 'schedule-mismatch':
            # the real threads could not follow the model's schedule: the code left the modelled protocol
            run.drift(f"{label} cap={cap}: {r['error']}")
            continue
        if r['outcome'] == 'harness-error':
            run.machinery(f"{label} cap={cap}: {r['error']}")
            continue
        ok_t = run.check(r['outcome'] == 'returned', 'C16.terminates', case, (r['outcome'], r['error'], r['pending']), 'returned')
        if not ok_t:
            continue
        run.check(r['late'] == 0, 'C16.no-late-write', case, r['late'], 0)
        run.check(r['same'], 'C16.same-file', case, (r['sha'][:12], r['len']), 'the sequential execution\'s file')
        if kind == 'path' and [a for a in r['acts']][:len(spec)] != list(spec):
            run.drift(f"{label} cap={cap}: executed actions differ from the model path at step "
                      f"{next((i for i, (x, y) in enumerate(zip(r['acts'], spec)) if x != y), len(spec))}")
        traces.setdefault((ci, cap), []).append(r['trace'])
    stall_pass(run, cfgs, list(refs) + stall_only)
    # ---- code -> spec: validate every executed trace against Trace_Writer
    tjobs = list(traces.items())

    def tv(job):
        (ci, cap), trs = job
        consts = const_from_acts(refs[(ci, cap)]['acts'])
        name = f't_{ci}_{cap}'
        fin = os.path.join(d, name + '.json')
        with open(fin, 'w') as f:
            json.dump({'traces': trs}, f)
        with open(os.path.join(env.SPEC, f'_{name}.cfg'), 'w') as f:
            f.write(cfg_text(consts, cap, spec='TSpec', props=False, extra='INVARIANT End\nINVARIANT Safe\n'))
        try:
            res = tlc.run('Trace_Writer', f'_{name}', workers=1, timeout=900, extra_env={'VZ_IN': fin}, check_ok=False, small=True)
        finally:
            os.remove(os.path.join(env.SPEC, f'_{name}.cfg'))
        ends = {int(m.group(1)): (int(m.group(2)), int(m.group(3))) for m in re.finditer(r'<<"END", (\d+), (\d+), (\d+), "\w+">>', res['output'])}
        return res, ends

    with ThreadPoolExecutor(max_workers=16) as ex:
        tvs = list(ex.map(tv, tjobs))
    for ((ci, cap), trs), (res, ends) in zip(tjobs, tvs):
        label = cfgs[ci][0]
        run.add_tlc(res, f'Trace_Writer[{label},cap={cap}]')
        if res['violated'] == 'Safe':
            run.drift(f'{label} cap={cap}: a validated trace prefix violates a safety property of the model')
        for k in range(1, len(trs) + 1):
            got = ends.get(k)
            if got and got[0] == got[1]:
                run.traces_validated += 1
            else:
                run.drift(f'{label} cap={cap}: trace {k} rejected by Trace_Writer at line {got}')


def stall_run(item):
    ci, cap, target = item
    label, thunk, rate = par.G['configs'][ci]
    d = env.subdir(f'c16s{os.getpid()}')
    p = os.path.join(d, 'o.sgz')
    if os.path.exists(p):
        os.remove(p)
    with env.quiet():
        r = stall.execute(lambda: thunk(p, cap), p, target)
    ref = par.G['ref'].get((ci, cap))
    return {'keys': r['keys'] if target is None else None, 'same': ref is None or r['data'] == ref, 'len': len(r['data']), 'late': r['late'],
            'changed': r['changed_after_return'], 'error': r['error'], 'thread_errors': r['thread_errors']}


def stall_pass(run, cfgs, refs):
    """protocol-independent fallback: hold one thread at one point of the real, free-running pipeline"""
    quick = run.tier == 'quick'
    items = []
    for (ci, cap) in sorted(refs):
        if quick and cap == 2:
            continue
        dry = stall_run((ci, cap, None))
        keys = dry['keys']
        if quick and len(keys) > 40:       # first and last operations of every thread: start-up and the hand-over of the last block
            per = {}
            for k in keys:
                per.setdefault((k[0], k[1]), []).append(k)
            keys = [k for v in per.values() for k in (v[:2] + v[-3:])]
            keys = [list(x) for x in sorted({tuple(k) for k in keys})]
        items += [(ci, cap, k) for k in keys]
        peeks = [k for k in dry['keys'] if k[1] == 'after-peek']
        if peeks:           # the caller polls a queue's counter instead of joining: hold a worker at its last hand-over AND the caller between its reads
            for role in ('compressor', 'writer'):
                gets = [k for k in dry['keys'] if k[0] == role and k[1] == 'after-get']
                if gets:
                    items.append((ci, cap, [gets[-1], [peeks[0][0], 'after-peek', '*']]))
        if cap == 16:       # any thread other than the compressor and the writer starts late (nothing to delay on the unchanged tree)
            items.append((ci, cap, ['helper', 'start', 0]))
    for (ci, cap, target), r in zip(items, par.pmap(stall_run, items, chunksize=2)):
        case = {'config': cfgs[ci][0], 'cap': cap, 'schedule': {'kind': 'stall', 'spec': target}}
        run.case(case)
        if isinstance(r, par.Crash):
            run.fail('C16.terminates', case, str(r), 'returned')
            continue
        run.check(r['error'] is None, 'C16.terminates', case, r['error'], 'returned')
        run.check(r['late'] == 0 and not r['changed'], 'C16.no-late-write', case, {'late': r['late'], 'changed': r['changed'], 'thread': r['thread_errors']}, 0)
        run.check(r['same'], 'C16.same-file', case, r['len'], 'the sequential execution\'s file')


def const_from_acts(acts):
    return {'N': acts.count('MPut'), 'NFooter': acts.count('MFooter'), 'Patch': 'MCount' in acts}


def replay(run, rep):
    case = rep['case']
    cfgs = configs(run)
    par.G['configs'] = cfgs
    par.G['ref'] = {}
    ci = [i for i, c in enumerate(cfgs) if c[0] == case['config']][0]
    cap = case['cap'] if isinstance(case['cap'], int) else 16
    ref = run_schedule((ci, cap, 'sequential', None))
    par.G['ref'][(ci, cap)] = ref['data']
    s = case['schedule']
    if isinstance(s, dict) and s.get('kind') == 'stall':
        r = stall_run((ci, cap, s['spec']))
        run.check(r['error'] is None, 'C16.terminates', case, r['error'], 'returned')
        run.check(r['late'] == 0 and not r['changed'], 'C16.no-late-write', case, r['late'], 0)
        run.check(r['same'], 'C16.same-file', case, r['len'], 'sequential file')
        return
    if s == 'sequential':
        r = ref
    elif s['kind'] == 'seed':
        r = run_schedule((ci, cap, 'seed', s['spec']))
    else:
        r = run_schedule((ci, cap, 'path', list(s['spec'])))
    run.check(r['outcome'] == 'returned', 'C16.terminates', case, (r['outcome'], r['error']), 'returned')
    run.check(r['late'] == 0, 'C16.no-late-write', case, r['late'], 0)
    run.check(r['same'], 'C16.same-file', case, r['sha'][:12], 'sequential file')
