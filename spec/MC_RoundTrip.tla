--------------------------- MODULE MC_RoundTrip ---------------------------
(* every grid up to MaxI x MaxX, both sortings, every ordinal window (and none): headers stay with their traces, traces at
   their cube positions; file order kept iff the source is inline sorted.  IBug = "contig_hdr" (the code before 5a8a193) and
   "hdr_row" / "src_count" (before 159ce70) must be rejected. *)
EXTENDS SgzRoundTrip, TLC
CONSTANTS MaxI, MaxX
VARIABLES ni, nx, w, srt
rvars == <<ni, nx, w, srt>>
Init == ni \in 2..MaxI /\ nx \in 2..MaxX /\ w = <<>> /\ srt \in {"il", "xl"}
Next == /\ w = <<>>
        /\ w' \in {<<None, None, None, None>>} \cup {<<a, b, c, d>> : a \in 0..(ni - 1), b \in 1..ni, c \in 0..(nx - 1), d \in 1..nx}
        /\ (w'[1] # None) => (w'[1] < w'[2] /\ w'[3] < w'[4])
        /\ UNCHANGED <<ni, nx, srt>>
Spec == Init /\ [][Next]_rvars
Ready == w # <<>>
PHeaderStays == Ready => HeaderStaysWithTrace(ni, nx, w, srt, 4)
PByPosition  == Ready => ByPosition(ni, nx, w, srt, 4)
POrderKept   == Ready => OrderKept(ni, nx, srt, 4)
=============================================================================
