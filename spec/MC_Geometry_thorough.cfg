CONSTANT W = 6
CONSTANT GBug = "none"
CONSTANT MaxCount = 8
SPECIFICATION Spec
INVARIANT PPreserved
INVARIANT PCrop
CHECK_DEADLOCK FALSE
