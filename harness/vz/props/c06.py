"""C06 SEG-Y export round trip: SGZ back to SEG-Y loses nothing but codec error.

TLC (MC_Export over SgzExport + SgzHeaders) checks, for every small header matrix whose delay word is constant, every
header-keeping detection mode and regular / one-hole irregular geometry, that export(convert(source)) has the source's trace
order and every header word of every trace, with the delay word following the first sample (also after a vertical crop);
three design mutants are rejected.  Real SEG-Y sources (IBM / IEEE; regular, irregular, 2-D; header content from the C04
embeddings; several compression settings) are converted and exported through the API and the CLI; the exported file is opened
with segyio and compared with the ORIGINAL (geometry, trace count, sample axis, the 3600 file-header bytes, every trace header)
and with the SGZ (samples exactly for IEEE, within 2^-20 relative for IBM; trace order)."""
import os

from fractions import Fraction as Fr

import numpy as np
import segyio

from .. import codec, env, inputs, par, sgzfile, writers

FINISH = dict(
    level='model_checking',
    rule='sources: geometry in {regular 5x6 / 2x2 / 9x4, regular crossline-sorted 4x7 / 6x3, irregular grids with 1..5 holes (corner, interior, staggered), 2-D with no numbering / single '
         'inline / single crossline} x format in {IEEE, IBM} x header content (constant / ramp / mixed backgrounds, extremes) x detection mode x '
         '(rate, blockshape) x route in {API, CLI}; non-trivial = distinct (geometry, format, background, mode, setting, route)',
    assumptions=['the delay-recording-time and the time scalar that scales it are the same in every trace (they define the sample axis; the delay word is regenerated)',
                 'IBM sources: exported samples within 2^-20 relative of the SGZ decode'],
    trusted=['segyio', 'numpy', 'zfpy', 'TLC'])

GEOMS = {
    'reg5x6': ('reg', (5, 6), ()), 'reg2x2': ('reg', (2, 2), ()), 'reg9x4': ('reg', (9, 4), ()),
    'regx4x7': ('regx', (4, 7), ()), 'regx6x3': ('regx', (6, 3), ()),       # regular, stored crossline-sorted
    'reg8x16': ('reg', (8, 16), ()), 'irr8x16': ('irr', (8, 16), ((7, 15), (3, 3))), '2d-128': ('2d0', (1, 128), ()),       # header arrays of exactly one 512-byte page
    'irr-corner': ('irr', (4, 5), ((0, 0),)), 'irr-last': ('irr', (3, 4), ((2, 3),)), 'irr-mid2': ('irr', (5, 5), ((1, 2), (3, 1))),
    'irr-stagger': ('irr', (6, 7), ((0, 3), (1, 1), (2, 5), (4, 0), (5, 6))), 'irr-rows': ('irr', (4, 6), ((0, 2), (1, 3), (2, 2), (3, 4))),
    '2d0': ('2d0', (1, 9), ()), '2dil': ('2dil', (1, 21), ()), '2dxl': ('2dxl', (7, 1), ()),
}


def source(case, d, tag, seed):
    kind, (ni, nx), holes = GEOMS[case['geom']]
    pos = [(i, x) for i in range(ni) for x in range(nx) if (i, x) not in holes]
    if kind == 'regx':
        pos = [(i, x) for x in range(nx) for i in range(ni)]
    n = len(pos)
    nz = case['nz']
    keys = sgzfile.trace_keys()
    H = []
    for t, (i, x) in enumerate(pos):
        h = {}
        for k in keys:
            bg = case['bg']
            if bg == 'mix':
                bg = ('zero', 'const', 'ramp')[(k // 2) % 3]
            h[k] = 0 if bg == 'zero' else ((k % 100) + 1 if bg == 'const' else 7 * k + t)
        if kind in ('reg', 'irr', 'regx'):
            h[189], h[193] = 10 + 2 * i, 5 + 3 * x
        elif kind == '2d0':
            h[189], h[193] = 0, 0
        elif kind == '2dil':
            h[189], h[193] = 7, 100 + x
        else:
            h[189], h[193] = 100 + i, 7
        h[115], h[117], h[109], h[37] = nz, 4000, case['delay'], 3
        if h[215] not in (0, 1):        # one time scalar for the whole file (it scales the delay word: a per-trace scalar would give every trace its own sample axis)
            h[215] = 16
        if case['bg'] in ('const', 'mix'):        # constant NEGATIVE words (the usual coordinate / elevation scalars)
            h[69], h[71] = -10, -100
        h[1] = t + 1
        h[181], h[185] = (-2147483647 - 1 if t == 0 else 2147483647 - t), 32767 * (t % 2)
        h[29] = (-32768, 32767, 0)[t % 3]
        H.append(h)
    traces = inputs.cube((n, nz), seed)
    sgy = os.path.join(d, tag + '.sgy')
    text = (('C06 %s ' % case['geom']) * 400)[:3200].encode('ascii')
    inputs.write_segy_traces(sgy, traces, float(case['delay']) + 4.0 * np.arange(nz), H, fmt=case['fmt'], text=text,
                             bin_fields={segyio.BinField.JobID: 77, segyio.BinField.LineNumber: -3, segyio.BinField.Traces: n + 3,
                                         segyio.BinField.SortingCode: 4, segyio.BinField.MeasurementSystem: 2,
                                         segyio.BinField.EnsembleFold: case.get('fold', 1), segyio.BinField.AuxTraces: 2,
                                         **({} if case.get('binint') is None else {segyio.BinField.Interval: case['binint']})})
    if case.get('text') == 'nul':       # a textual header that was never filled in
        with open(sgy, 'r+b') as f:
            f.write(bytes(3200))
    elif case.get('text') == 'spaces':  # EBCDIC blanks
        with open(sgy, 'r+b') as f:
            f.write(b'\x40' * 3200)
    return sgy, kind, pos


def _worker(item):
    ci, c = item
    from seismic_zfp.read import SgzReader
    from seismic_zfp.conversion import SgzConverter
    d = env.subdir(f'c06-{os.getpid()}')
    tag = f'e{ci}'
    out = {}
    paths = []
    try:
        sgy, kind, pos = source(c, d, tag, par.G['seed'] + ci)
        sgz, exp = os.path.join(d, tag + '.sgz'), os.path.join(d, tag + '.out.sgy')
        paths += [sgy, sgz, exp]
        writers.segy_to_sgz(sgy, sgz, c['rate'], tuple(c['bs']) if c['bs'] else None, header_detection=c['mode'])
        if c['route'] == 'api':
            with env.quiet():
                with SgzConverter(sgz) as cv:
                    cv.convert_to_segy(exp)
        else:
            from click.testing import CliRunner
            from seismic_zfp.cli import cli
            with env.quiet():
                r = CliRunner().invoke(cli, ['sgz2sgy', sgz, exp])
            if r.exit_code != 0:
                raise RuntimeError(f'cli exit {r.exit_code}: {r.output[-200:]} {r.exception!r}')
        keys = sgzfile.trace_keys()
        with open(sgy, 'rb') as f:
            src_fh = f.read(3600)
        with open(exp, 'rb') as f:
            exp_fh = f.read(3600)
        with env.quiet():
            with SgzReader(sgz) as r:
                dec = np.stack([np.asarray(r.get_trace(i), dtype=np.float32) for i in range(r.tracecount)])
                sgz_z = np.asarray(r.zslices, dtype=np.float64)
        with segyio.open(sgy, strict=False) as a, segyio.open(exp, strict=False) as b:
            out['tracecount'] = (a.tracecount, b.tracecount)
            # what the default detection owes (C04's precondition), decided on the source's own headers
            first, last = a.header[0], a.header[a.tracecount - 1]
            var = [k for k in keys if int(first[k]) != int(last[k])]
            vals = {k: [int(a.header[i][k]) for i in range(a.tracecount)] for k in keys if k not in var}
            out['pre'] = all(len(set(v)) == 1 for v in vals.values()) and len({(int(first[k]), int(last[k])) for k in var}) == len(var)
            out['samples'] = bool(len(a.samples) == len(b.samples) and np.allclose(a.samples, b.samples, rtol=0, atol=1e-9) and
                                  np.allclose(b.samples, sgz_z, rtol=0, atol=1e-9))
            # a regular SGZ keeps the cube, not the source's file order: a crossline-sorted source comes back inline-sorted, every trace
            # (samples and header) identified by its position in the cube; perm[i] = the source ordinal of the cube's i-th position
            perm = sorted(range(a.tracecount), key=lambda t: pos[t]) if kind == 'regx' else list(range(a.tracecount))
            srt = (lambda f: 0) if kind == 'regx' else (lambda f: int(f.sorting))
            ga = (None if a.unstructured else (np.asarray(a.ilines).tolist(), np.asarray(a.xlines).tolist(), srt(a), np.asarray(a.offsets).tolist()))
            gb = (None if b.unstructured else (np.asarray(b.ilines).tolist(), np.asarray(b.xlines).tolist(), srt(b), np.asarray(b.offsets).tolist()))
            out['geometry'] = (ga == gb, str(ga)[:80], str(gb)[:80])
            out['file_header'] = src_fh == exp_fh
            out['bin'] = dict(a.bin) == dict(b.bin)
            n = min(a.tracecount, b.tracecount)
            bad = []
            for i in range(n):
                ha, hb = a.header[perm[i]], b.header[i]
                diff = [k for k in keys if int(ha[k]) != int(hb[k])]
                if diff:
                    bad.append((i, diff[:4]))
                    if len(bad) > 3:
                        break
            out['headers'] = bad
            got = np.stack([np.asarray(b.trace[i], dtype=np.float32) for i in range(n)]) if n else np.zeros((0, 0), dtype=np.float32)
            if c['fmt'] == 5:
                out['samples_vs_sgz'] = bool(got.shape == dec[:n].shape and codec.same_bits(got, dec[:n]))
            else:
                ref = dec[:n].astype(np.float64)
                tol = np.abs(ref) * 2.0 ** -20 + 1e-38
                out['samples_vs_sgz'] = bool(got.shape == ref.shape and np.all(np.abs(got.astype(np.float64) - ref) <= tol))
            # trace order against the SOURCE, exactly: the SGZ decode of ordinal i is the ZFP image of source trace i at its place (edge-extended
            # cube / section, zero-filled grid for an irregular survey) and the exported trace i is that decode (checked above)
            src_tr = np.stack([np.asarray(a.trace[perm[i]], dtype=np.float32) for i in range(a.tracecount)])
            gk, (gni, gnx), _ = GEOMS[c['geom']]
            if gk == 'regx':
                gk, pos = 'reg', sorted(pos)
            rate = Fr(c['rate'])
            if gk in ('reg', 'irr'):
                grid = np.zeros((gni, gnx, src_tr.shape[1]), dtype=np.float32)
                for t, (i, x) in enumerate(pos):
                    grid[i, x] = src_tr[t]
                ideal = codec.ideal_volume(grid, rate, 'edge' if gk == 'reg' else 'constant')
                want = np.stack([ideal[i, x] for (i, x) in pos])
            else:
                want = codec.ideal_volume(src_tr, rate, 'edge')
            order_bad = [i for i in range(min(n, len(want))) if not codec.same_bits(dec[i], want[i])]
            out['order'] = order_bad[:5]
    except BaseException as e:
        if isinstance(e, (KeyboardInterrupt, SystemExit, MemoryError)):
            raise
        out['error'] = f'{type(e).__name__}: {e}'
    finally:
        for p in paths:
            if os.path.exists(p):
                os.remove(p)
    return out


def plan(run):
    quick = run.tier == 'quick'
    settings = [(16, None), (8, None), (32, (8, 8, 16)), (4, (4, 4, -1)), (2, None), (32, (16, 16, 4)), (32, (4, 8, 32)), (16, (8, 4, -1)), (16, (4, 16, -1))]
    set2d = [(16, None), (8, (1, 4, -1)), (32, (1, 8, 128)), (4, None), (32, (1, 4, -1))]      # the last one with traces longer than its 256-sample block
    cases = []
    k = 0
    geoms = list(GEOMS)
    reps = 6 if quick else 40
    for rep in range(reps):
        for g in geoms:
            is2d = GEOMS[g][0].startswith('2d')
            st = (set2d if is2d else settings)[k % (len(set2d) if is2d else len(settings))]
            # rate 16 / 32 keep neighbouring traces distinguishable for the order check at any setting
            cases.append({'geom': g, 'fmt': (5, 1)[k % 2], 'bg': ('mix', 'ramp', 'const', 'zero')[k % 4], 'mode': ('thorough', 'exhaustive', 'heuristic')[k % 3],
                          'rate': st[0], 'bs': list(st[1]) if st[1] else None, 'route': 'cli' if k % 5 == 0 else 'api',
                          'nz': 300 if (is2d and st == (32, (1, 4, -1))) else (6, 40, 9)[k % 3],
                          'delay': (0, 8, -12, 100)[k % 4], 'text': (None, 'nul', None, 'spaces', None, None)[k % 6],
                          # the sample interval in the binary header: as in the trace headers, absent (0), or contradicting them
                          'binint': (None, None, 0, None, 3000, None, None)[k % 7],
                          # the word after the format code in the binary header (ensemble fold): small, and with its high byte in use
                          'fold': (1, 300, 24, 4096)[k % 4]})
            k += 1
    return cases


def judge(run, c, r):
    run.case(c)
    if isinstance(r, par.Crash) or 'error' in r:
        run.fail('C06.exports', c, str(r if isinstance(r, par.Crash) else r['error']), 'an exported SEG-Y')
        return
    heur_ok = c['mode'] != 'heuristic' or r.get('pre', False)
    run.check(r['tracecount'][0] == r['tracecount'][1], 'C06.tracecount', c, r['tracecount'], 'as the original')
    run.check(r['geometry'][0], 'C06.geometry', c, r['geometry'][2], r['geometry'][1])
    run.check(r['samples'], 'C06.sample-axis', c, None, 'as the original and the SGZ')
    run.check(r['file_header'], 'C06.file-header-bytes', c, None, 'byte-identical 3600 bytes')
    run.check(r['bin'], 'C06.bin-fields', c, None, 'as the original')
    if heur_ok:
        run.check(not r['headers'], 'C06.trace-headers', c, r['headers'], 'every word of every trace as the original')
    run.check(r['samples_vs_sgz'], 'C06.samples-equal-sgz-decode', c, None, 'exact (IEEE) / 2^-20 (IBM)')
    run.check(not r['order'], 'C06.trace-order', c, r['order'], 'SGZ ordinal i (and so exported trace i) is the codec image of source trace i')


def run(run):
    run.mc('MC_Export', f'MC_Export_{run.tier}')
    run.mc('MC_RoundTrip', f'MC_RoundTrip_{run.tier}')      # regular sources of either sorting, windows: a trace never parts from its header
    cases = plan(run)
    par.G['seed'] = run.seed
    for c, r in zip(cases, par.pmap(_worker, list(enumerate(cases)), chunksize=2)):
        judge(run, c, r)
        if not isinstance(r, par.Crash) and 'error' not in r:
            run.traces_validated += 1


def replay(run, rep):
    c = rep['case']
    par.G['seed'] = run.seed
    cases = plan(run)
    k = [i for i, x in enumerate(cases) if x == c]
    judge(run, c, _worker((k[0] if k else 0, c)))
