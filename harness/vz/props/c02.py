"""C02 access-path coherence: every read API returns the slice SgzApi.Ideal denotes of the volume decoded
cell by cell from TLC-emitted addresses."""
import os

import numpy as np

from .. import codec, env, inputs, readcalls, session, writers
from ..tlc import NONE

FINISH = dict(
    level='model_checking',
    rule='files = every fixture .sgz + files written by the current writer over layouts/rates; calls = in-range '
         'argument tuples stratified over residues mod 4 and mod blockshape, expected selection from TLC '
         '(SgzApi!Ideal), reference volume decoded unit by unit from TLC addresses (SgzFormat!UnitAddr); '
         'non-trivial = distinct (file, op, args)',
    assumptions=['zfpy is deterministic and decodes units independently (checked at start)'],
    trusted=['zfpy', 'numpy', 'TLC'])


def written_files(run, tier):
    """files written by the current writer: (shape, rate, blockshape)"""
    from fractions import Fraction as Fr
    d = env.subdir('c02w')
    combos = [((9, 10, 70), 32, (4, 4, -1)), ((9, 6, 20), 32, (8, 8, 16)), ((18, 17, 9), 32, (16, 16, 4)),
              ((5, 9, 130), 16, (4, 4, -1)), ((6, 5, 300), 8, (4, 4, -1)),
              ((37, 20, 9), 8, (16, 64, 4)), ((70, 19, 6), 8, (64, 16, 4)), ((13, 10, 40), 32, (4, 8, 32)),        # z-slice layouts that are not square, two block rows
              ((9, 130, 6), Fr(1, 2), (64, 256, 4)),      # a z-slice layout at a rate below one bit per voxel
              ((130, 6, 5), 8, (64, 16, 4))]              # more than 100 inlines in a layout whose blocks are taller than 4
    if tier == 'thorough':
        combos += [((10, 9, 40), 32, (8, 4, 32)), ((9, 17, 20), 32, (4, 16, 16)),
                   ((5, 6, 600), 4, (4, 4, -1)), ((5, 6, 1100), 2, (4, 4, -1)), ((66, 65, 9), 2, (64, 64, 4)),
                   ((5, 5, 2100), 1, (4, 4, -1)), ((5, 5, 4100), Fr(1, 2), (4, 4, -1)), ((5, 5, 8200), Fr(1, 4), (4, 4, -1)),
                   ((33, 34, 9), 8, (32, 32, 4)), ((17, 9, 70), 16, (16, 8, 16)), ((12, 13, 260), 32, (4, 4, 64))]
    out = []
    for k, (shape, rate, bs) in enumerate(combos):
        p = os.path.join(d, f'w{k}.sgz')
        cube = inputs.cube(shape, run.seed + k)
        il = np.arange(shape[0]) * 2 + 100
        xl = np.arange(shape[1]) * 3 - 7
        z0 = 0
        if k % 2 == 1:      # the value 0 strictly inside every axis: line number 0, sample time 0.0 are ordinary coordinates
            il = (np.arange(shape[0]) - 2) * 2
            xl = (np.arange(shape[1]) - 3) * 3
            z0 = -2.0 * min(shape[2] // 2, 4 if bs[2] in (-1, 4) else bs[2])
        if k % 5 == 4:      # six-digit line numbers (a relative tolerance of 1e-5 reaches the neighbouring line)
            il, xl = 100000 + np.arange(shape[0]), 250000 + 2 * np.arange(shape[1])
        if k % 3 == 2:      # descending line axes
            il, xl = il[::-1].copy(), xl[::-1].copy()
        try:
            writers.numpy_to_sgz(p, cube, writers.rate_arg(rate), bs, ilines=il, xlines=xl,
                                 samples=z0 + np.arange(shape[2]) * 2.0)
        except BaseException as e:
            run.notes.append(f'writer refused {shape} {rate} {bs}: {type(e).__name__}')
            continue
        out.append(session.FileCase(p, label=f'numpy{shape}r{rate}b{bs}'))
    return out


def written_2d(run, tier):
    import segyio
    d = env.subdir('c02w2')
    combos = [((9, 600), 16, (1, 4, 512)), ((21, 300), 8, (1, 16, 256)), ((9, 70), 8, (1, 4, 1024))]     # first: b1 = 4 with two z-blocks
    if tier == 'thorough':
        combos += [((19, 40), 16, (1, 16, 128)), ((5, 2100), 4, (1, 4, 2048)), ((40, 70), 32, (1, 32, 32)), ((9, 9), 32, (1, 4, 256)),
                   ((70, 9), 16, (1, 64, 32)), ((6, 600), 2, (1, 16, 1024))]
    out = []
    for k, (shape, rate, bs) in enumerate(combos):
        sgy, p = os.path.join(d, f's{k}.sgy'), os.path.join(d, f'q{k}.sgz')
        data = inputs.cube(shape, run.seed + 50 + k)
        hdrs = [{segyio.TraceField.CDP_X: 100 + t, segyio.TraceField.CDP_Y: 7 * t, segyio.TraceField.CDP: t + 1,
                 segyio.TraceField.offset: 3} for t in range(shape[0])]
        inputs.write_segy_traces(sgy, data, (-16.0 if k % 2 else 0.0) + np.arange(shape[1]) * 4.0, hdrs)        # (time zero inside the axis)
        try:
            writers.segy_to_sgz(sgy, p, writers.rate_arg(rate), bs)
        except BaseException as e:
            run.notes.append(f'2d writer refused {shape} {rate} {bs}: {type(e).__name__}: {e}')
            continue
        out.append(session.FileCase(p, label=f'segy2d{shape}r{rate}b{bs}'))
    return out


def extra_paths(run, fc, rng, budget):
    """segyio-style accessors, subvolume[...] with steps, tools.cube, xarray backend: (op label, ideal op, args, thunk)"""
    import seismic_zfp
    F = fc.F
    ni, nx, nz = F['n']
    items = []
    if F['dim'] != 3:
        return items
    regular = not F['mask']

    def stepped(rngs):
        a = []
        for (lo, hi, st, sq) in rngs:
            a += [lo, hi, st, 1 if sq else 0]
        return a

    def rand_rng(n, allow_int=True):
        if allow_int and rng.random() < 0.25:
            k = int(rng.integers(0, n))
            return (k, k + 1, 1, True)
        lo = int(rng.integers(0, n))
        hi = int(rng.integers(lo + 1, n + 1))
        st = int(rng.integers(1, 4))
        return (lo, hi, st, False)

    for _ in range(budget):
        r = [rand_rng(ni), rand_rng(nx), rand_rng(nz)]
        items.append(('xarray.isel', 'box_stepped', stepped(r), ('xarray', r)))
    for _ in range(budget):
        r = [rand_rng(ni, False), rand_rng(nx, False), rand_rng(nz, False)]
        items.append(('emu.subvolume', 'box_stepped', stepped(r), ('subvolume', r)))
    for i in readcalls.thin(range(ni), rng, 4):
        items.append(('emu.iline', 'read_inline', [i], ('iline', i)))
    for x in readcalls.thin(range(nx), rng, 4):
        items.append(('emu.xline', 'read_crossline', [x], ('xline', x)))
    for z in readcalls.thin(range(nz), rng, 4):
        items.append(('emu.depth_slice', 'read_zslice', [z], ('depth_slice', z)))
    tc = readcalls.tracecount(F)
    for t in readcalls.thin(range(tc), rng, 6):
        items.append(('emu.trace', 'get_trace', [t, NONE, NONE], ('trace', t)))
    items.append(('tools.cube', 'read_volume', [], ('cube', None)))
    return items


def run_extra(fc, kind, arg, handles):
    import seismic_zfp
    F = fc.F
    try:
        if kind == 'xarray':
            import xarray as xr
            ds = handles.get('xr')
            if ds is None:
                ds = handles['xr'] = xr.open_dataset(fc.path, engine='sgz_engine') if fc.path.endswith('.sgz') else \
                    xr.open_dataset(fc.path, engine=__import__('seismic_zfp.sgz_xarray', fromlist=['x']).SeismicZfpBackendEntrypoint)
            sel = {}
            for name, (lo, hi, st, sq) in zip(('il', 'xl', 'z'), arg):
                sel[name] = lo if sq else slice(lo, hi, st)
            return ('value', np.array(ds.data.isel(**sel).values))
        emu = handles.get('emu')
        if emu is None:
            emu = handles['emu'] = seismic_zfp.open(fc.path)
        if kind == 'subvolume':
            sl = []
            for axis, (lo, hi, st, sq) in zip((emu.ilines, emu.xlines, emu.subvolume.zslices_int), arg):
                step = int(axis[1] - axis[0])
                stop = int(axis[hi]) if hi < len(axis) else int(axis[-1] + step)
                sl.append(slice(int(axis[lo]), stop, st * step))
            return ('value', np.array(emu.subvolume[sl[0], sl[1], sl[2]]))
        if kind == 'iline':
            return ('value', np.array(emu.iline[int(emu.ilines[arg])]))
        if kind == 'xline':
            return ('value', np.array(emu.xline[int(emu.xlines[arg])]))
        if kind == 'depth_slice':
            return ('value', np.array(emu.depth_slice[arg]))
        if kind == 'trace':
            return ('value', np.array(emu.trace[arg]))
        if kind == 'cube':
            return ('value', np.array(seismic_zfp.tools.cube(fc.path)))
    except BaseException as e:
        if isinstance(e, (KeyboardInterrupt, SystemExit, MemoryError)):
            raise
        return ('raise', type(e).__name__, [c.__name__ for c in type(e).__mro__])


def check_file_calls(run, cases, per_file_budget, rng, with_extra=True):
    import seismic_zfp
    from seismic_zfp.read import SgzReader
    calls, extras = [], []
    for fi, fc in enumerate(cases):
        big = max(fc.F['n']) > 1000 or fc.F['n'][0] * fc.F['n'][1] > 3000        # long selections are slow to evaluate in TLC: fewer of them
        for op, a in readcalls.in_range_calls(fc.F, rng, min(per_file_budget, 150) if big else per_file_budget):
            calls.append((fi, op, a))
        # coordinates equal to 0 that lie inside an axis (a window bound 0.0, line number 0)
        F = fc.F
        if fc.meta['dz'] and fc.meta['z0'] < 0 and (-fc.meta['z0'] / fc.meta['dz']).denominator == 1 and 0 < -fc.meta['z0'] / fc.meta['dz'] < F['n'][2]:
            j = int(-fc.meta['z0'] / fc.meta['dz'])
            t = readcalls.tracecount(F) - 1
            for a in ([t, 2 * j, NONE], [t, NONE, 2 * j], [0, 0, 2 * j], [0, 2 * j, 2 * F['n'][2]], [t, 2 * j, 2 * j + 2]):
                calls.append((fi, 'get_trace_by_coord', a))
            if F['dim'] == 3:
                calls.append((fi, 'read_zslice_coord', [2 * j]))
        if F['dim'] == 3 and F['n'][2] > F['b'][2]:
            # sample windows exactly one block long, at several offsets, over more than one group of 4 crosslines / inlines
            ni_, nx_, nz_ = F['n']
            bz = F['b'][2]
            for a0 in sorted({0, 4, ((nz_ - bz) // 4) * 4, nz_ - bz}):
                if 0 <= a0 and a0 + bz <= nz_:
                    calls.append((fi, 'read_subvolume', [0, min(ni_, 6), 0, min(nx_, 10), a0, a0 + bz]))
        if F['dim'] == 3:
            for ax, op in (('il', 'read_inline_number'), ('xl', 'read_crossline_number')):
                s0, d0, n0 = F[ax]['s'], F[ax]['d'], F['n'][0 if ax == 'il' else 1]
                if d0 and s0 % d0 == 0 and 0 < -s0 // d0 < n0:
                    calls.append((fi, op, [0]))
        if with_extra:
            for item in extra_paths(run, fc, rng, max(4, per_file_budget // 20)):
                extras.append((fi,) + item)
    answers = session.eval_calls(cases, calls + [(fi, iop, a) for fi, _, iop, a, _ in extras], run)
    k = 0
    readers = {}
    for (fi, op, a), ans in zip(calls, answers[:len(calls)]):
        fc = cases[fi]
        if fi not in readers:
            with env.quiet():
                readers[fi] = SgzReader(fc.path if fi % 2 else __import__('pathlib').Path(fc.path))      # str and pathlib.Path alike
        case = {'file': fc.label, 'op': op, 'args': a, 'F': {k2: fc.F[k2] for k2 in ('dim', 'n', 'b', 'ub')}}
        if len(ans['alts']) != 1 or ans['alts'][0]['kind'] == 'raise':
            run.machinery(f'generated in-range call judged out of range by SgzApi: {case}')
            continue
        run.case(case)
        # on every third file the integers are numpy integers (what callers get from np.where, axis arithmetic, ...)
        a_call = [np.int64(x) if (fi % 3 == 1 and isinstance(x, int) and not isinstance(x, bool) and x != NONE) else x for x in a]
        with env.quiet():
            out = readcalls.invoke(readers[fi], op, a_call)
        ok, detail = readcalls.compare(out, ans['alts'], fc.ref, header_of=lambda t, fc=fc, ans=ans: fc.header(ans['alts'][0]['grid']))
        run.check(ok, f'C02.value[{op}]', case, detail, _exp(ans['alts'][0]))
        mk = ans['model']['kind']
        if mk not in ('unmodelled', 'skipped'):
            if (mk == 'value') == (out[0] == 'value'):
                run.traces_validated += 1
            else:
                run.drift(f'model outcome {mk} vs code {readcalls.describe(out)[:60]} for {op}{a} on {fc.label}')
    for r in readers.values():
        with env.quiet():
            r.close()
    handles = {}
    last = None
    for (fi, label, iop, a, (kind, arg)), ans in zip(extras, answers[len(calls):]):
        fc = cases[fi]
        if last != fi:
            _close(handles)
            handles = {}
            last = fi
        case = {'file': fc.label, 'op': label, 'args': a, 'F': {k2: fc.F[k2] for k2 in ('dim', 'n', 'b', 'ub')}}
        run.case(case)
        with env.quiet():
            out = run_extra(fc, kind, arg, handles)
        ok, detail = readcalls.compare(out, ans['alts'], fc.ref)
        run.check(ok, f'C02.value[{label}]', case, detail, _exp(ans['alts'][0]))
    _close(handles)


def _close(handles):
    with env.quiet():
        if 'emu' in handles:
            try:
                handles['emu'].__exit__(None, None, None)
            except Exception:
                pass
        if 'xr' in handles:
            try:
                handles['xr'].close()
            except Exception:
                pass


def _exp(alt):
    if alt['kind'] == 'box':
        return {k: (v if len(v) < 6 else [v[0], '..', v[-1], f'n={len(v)}']) for k, v in alt.items() if k in ('il', 'xl', 'z')}
    return {k: v for k, v in alt.items() if k != 'z'}


def run(run):
    run.mc('MC_Reader', f'MC_Reader_C02_{run.tier}')
    if not codec.self_check(run.seed):
        run.machinery('zfpy block independence does not hold')
        return
    rng = np.random.default_rng(run.seed)
    quick = run.tier == 'quick'
    fixtures = inputs.fixture_sgz()
    if quick:
        keep = ('padding_5x7', 'padding_8x8', 'small-2d', 'small-dec_8bit', 'small-irregular', 'small_025bit', 'small_2bit-64x64',
                'small_8bit-8x8', 'small_8bit.', 'small_hole', 'small_v0.0.1', 'small_4bit')
        fixtures = [f for f in fixtures if any(k in f for k in keep)]
    cases = session.load_files([session.FileCase(p) for p in fixtures] + written_files(run, run.tier) + written_2d(run, run.tier), run)
    for fc in cases:
        # the reference volume of a file written here is also the ZFP image of nothing we know: only coherence is judged
        run.ok('C02.refdecode')
    check_file_calls(run, cases, 120 if quick else 900, rng)


def replay(run, rep):
    case = rep['case']
    rng = np.random.default_rng(0)
    paths = [p for p in inputs.fixture_sgz() if p.endswith('/' + case['file'])]
    if paths:
        cases = session.load_files([session.FileCase(paths[0])], run)
    else:
        cases = [c for c in session.load_files(written_files(run, 'thorough') + written_2d(run, 'thorough'), run) if c.label == case['file']]
    fc = cases[0]
    op, a = case['op'], case['args']
    from seismic_zfp.read import SgzReader
    if op in ('xarray.isel', 'emu.subvolume', 'emu.iline', 'emu.xline', 'emu.depth_slice', 'emu.trace', 'tools.cube'):
        iop = {'xarray.isel': 'box_stepped', 'emu.subvolume': 'box_stepped', 'emu.iline': 'read_inline', 'emu.xline': 'read_crossline',
               'emu.depth_slice': 'read_zslice', 'emu.trace': 'get_trace', 'tools.cube': 'read_volume'}[op]
        ans = session.eval_calls([fc], [(0, iop, a)], run)[0]
        if iop == 'box_stepped':
            arg = [(a[4 * k], a[4 * k + 1], a[4 * k + 2], bool(a[4 * k + 3])) for k in range(3)]
        else:
            arg = a[0] if a else None
        kind = {'xarray.isel': 'xarray', 'emu.subvolume': 'subvolume', 'emu.iline': 'iline', 'emu.xline': 'xline',
                'emu.depth_slice': 'depth_slice', 'emu.trace': 'trace', 'tools.cube': 'cube'}[op]
        h = {}
        with env.quiet():
            out = run_extra(fc, kind, arg, h)
        _close(h)
        ok, detail = readcalls.compare(out, ans['alts'], fc.ref)
    else:
        ans = session.eval_calls([fc], [(0, op, a)], run)[0]
        with env.quiet():
            r = SgzReader(fc.path)
            out = readcalls.invoke(r, op, a)
            r.close()
        ok, detail = readcalls.compare(out, ans['alts'], fc.ref, header_of=lambda t: fc.header(ans['alts'][0]['grid']))
    run.check(ok, rep['clause'], case, detail, _exp(ans['alts'][0]))
