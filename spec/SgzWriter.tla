------------------------------ MODULE SgzWriter ------------------------------
(***************************************************************************)
(* The conversion pipeline of conversion_utils.run_conversion_loop and     *)
(* SeismicFileConverter.run / NumpyConverter.run: three threads and two    *)
(* bounded queues.                                                         *)
(*                                                                         *)
(*   M  the caller: starts the two daemon threads, produces N items        *)
(*      (plane sets or blocks) into the compression queue, joins both      *)
(*      queues, flushes, then (header detection 'thorough') patches the    *)
(*      array count and the header-word table in place through a second    *)
(*      handle, appends the footer arrays, patches the hash through        *)
(*      another handle, returns.                                           *)
(*   C  compressor: forever get / compress / put / task_done               *)
(*   W  writer: writes the header, then forever get / write / task_done    *)
(*                                                                         *)
(* Queues are Python queue.Queue: put blocks while full and counts the     *)
(* item as unfinished at once; get blocks while empty; task_done           *)
(* decrements; join returns when the unfinished count is zero.             *)
(* The only observable is `writes`, the sequence of file writes.           *)
(* One action = one scheduling point of the code (queue operation, thread  *)
(* start, file write, flush, return).                                      *)
(***************************************************************************)
EXTENDS Integers, Sequences, FiniteSets

CONSTANTS N,          \* number of items the producer puts
          Cap,        \* queue capacity (maxsize)
          NFooter,    \* number of footer arrays written after the data
          Patch,      \* TRUE: 'thorough' mode, count + table patched in place before the footer
          Mutant      \* "none" | deliberate design mutants the properties must reject

VARIABLES pcM, pcC, pcW,      \* program counters
          k,                  \* next item M produces / footer M writes
          cq, wq,             \* queue contents (item ids; wq holds compressed items)
          ucq, uwq,           \* unfinished-task counters
          heldC, heldW,       \* item in the hands of C / W
          startedC, startedW,
          writes,             \* sequence of [h |-> handle, what |-> token]
          pcC2, heldC2        \* second compressor (mutant "two_compressors" only)
vars == <<pcM, pcC, pcW, k, cq, wq, ucq, uwq, heldC, heldW, startedC, startedW, writes, pcC2, heldC2>>

Item(i)   == <<"item", i>>
Footer(j) == <<"footer", j>>
W1(x) == [h |-> 1, what |-> x]
W2(x) == [h |-> 2, what |-> x]

Init == /\ pcM = "startC" /\ pcC = "get" /\ pcW = "header" /\ k = 1
        /\ cq = <<>> /\ wq = <<>> /\ ucq = 0 /\ uwq = 0 /\ heldC = 0 /\ heldW = 0
        /\ startedC = FALSE /\ startedW = FALSE /\ writes = <<>> /\ pcC2 = "get" /\ heldC2 = 0

(*************************** M ***************************)
MStartC == pcM = "startC" /\ startedC' = TRUE /\ pcM' = "startW"
           /\ UNCHANGED <<pcC, pcW, k, cq, wq, ucq, uwq, heldC, heldW, startedW, writes, pcC2, heldC2>>
MStartW == pcM = "startW" /\ startedW' = TRUE /\ pcM' = (IF N = 0 THEN "joinC" ELSE "put")
           /\ UNCHANGED <<pcC, pcW, k, cq, wq, ucq, uwq, heldC, heldW, startedC, writes, pcC2, heldC2>>
MPut == /\ pcM = "put" /\ Len(cq) < Cap
        /\ cq' = Append(cq, k) /\ ucq' = ucq + 1 /\ k' = k + 1
        /\ pcM' = (IF k = N THEN (IF Mutant = "join_swapped" THEN "joinW" ELSE "joinC") ELSE "put")
        /\ UNCHANGED <<pcC, pcW, wq, uwq, heldC, heldW, startedC, startedW, writes, pcC2, heldC2>>
MJoinC == /\ pcM = "joinC" /\ ucq = 0
          /\ pcM' = (IF Mutant = "join_swapped" THEN "flush" ELSE IF Mutant = "no_join_w" THEN "flush" ELSE "joinW")
          /\ UNCHANGED <<pcC, pcW, k, cq, wq, ucq, uwq, heldC, heldW, startedC, startedW, writes, pcC2, heldC2>>
MJoinW == /\ pcM = "joinW" /\ uwq = 0
          /\ pcM' = (IF Mutant = "join_swapped" THEN "joinC" ELSE "flush")
          /\ UNCHANGED <<pcC, pcW, k, cq, wq, ucq, uwq, heldC, heldW, startedC, startedW, writes, pcC2, heldC2>>
AfterFlush == IF Patch THEN "count" ELSE IF NFooter > 0 THEN "footer" ELSE "hash"
MFlush == /\ pcM = "flush" /\ pcM' = AfterFlush /\ k' = 1
          /\ UNCHANGED <<pcC, pcW, cq, wq, ucq, uwq, heldC, heldW, startedC, startedW, writes, pcC2, heldC2>>
MCount == /\ pcM = "count" /\ writes' = Append(writes, W2("count")) /\ pcM' = "table"
          /\ UNCHANGED <<pcC, pcW, k, cq, wq, ucq, uwq, heldC, heldW, startedC, startedW, pcC2, heldC2>>
MTable == /\ pcM = "table" /\ writes' = Append(writes, W2("table")) /\ pcM' = (IF NFooter > 0 THEN "footer" ELSE "hash")
          /\ UNCHANGED <<pcC, pcW, k, cq, wq, ucq, uwq, heldC, heldW, startedC, startedW, pcC2, heldC2>>
MFooter == /\ pcM = "footer" /\ writes' = Append(writes, W1(Footer(k))) /\ k' = k + 1
           /\ pcM' = (IF k = NFooter THEN "hash" ELSE "footer")
           /\ UNCHANGED <<pcC, pcW, cq, wq, ucq, uwq, heldC, heldW, startedC, startedW, pcC2, heldC2>>
MHash == /\ pcM = "hash" /\ writes' = Append(writes, W2("hash")) /\ pcM' = "return"
         /\ UNCHANGED <<pcC, pcW, k, cq, wq, ucq, uwq, heldC, heldW, startedC, startedW, pcC2, heldC2>>
MReturn == /\ pcM = "return" /\ pcM' = "returned"
           /\ UNCHANGED <<pcC, pcW, k, cq, wq, ucq, uwq, heldC, heldW, startedC, startedW, writes, pcC2, heldC2>>
MNext == MStartC \/ MStartW \/ MPut \/ MJoinC \/ MJoinW \/ MFlush \/ MCount \/ MTable \/ MFooter \/ MHash \/ MReturn

(*************************** C ***************************)
CGet == /\ startedC /\ pcC = "get" /\ cq # <<>>
        /\ heldC' = Head(cq) /\ cq' = Tail(cq)
        /\ pcC' = (IF Mutant = "early_task_done" THEN "done" ELSE "put")
        /\ UNCHANGED <<pcM, pcW, k, wq, ucq, uwq, heldW, startedC, startedW, writes, pcC2, heldC2>>
CPut == /\ startedC /\ pcC = "put" /\ Len(wq) < Cap
        /\ wq' = Append(wq, heldC) /\ uwq' = uwq + 1
        /\ pcC' = (IF Mutant = "early_task_done" THEN "get" ELSE "done")
        /\ UNCHANGED <<pcM, pcW, k, cq, ucq, heldC, heldW, startedC, startedW, writes, pcC2, heldC2>>
CDone == /\ startedC /\ pcC = "done" /\ ucq' = ucq - 1
         /\ pcC' = (IF Mutant = "early_task_done" THEN "put" ELSE "get")
         /\ UNCHANGED <<pcM, pcW, k, cq, wq, uwq, heldC, heldW, startedC, startedW, writes, pcC2, heldC2>>
CNext == CGet \/ CPut \/ CDone

\* mutant: a second compressor thread sharing both queues
C2Get == /\ Mutant = "two_compressors" /\ startedC /\ pcC2 = "get" /\ cq # <<>>
         /\ heldC2' = Head(cq) /\ cq' = Tail(cq) /\ pcC2' = "put"
         /\ UNCHANGED <<pcM, pcC, pcW, k, wq, ucq, uwq, heldC, heldW, startedC, startedW, writes>>
C2Put == /\ Mutant = "two_compressors" /\ pcC2 = "put" /\ Len(wq) < Cap
         /\ wq' = Append(wq, heldC2) /\ uwq' = uwq + 1 /\ pcC2' = "done"
         /\ UNCHANGED <<pcM, pcC, pcW, k, cq, ucq, heldC, heldW, startedC, startedW, writes, heldC2>>
C2Done == /\ Mutant = "two_compressors" /\ pcC2 = "done" /\ ucq' = ucq - 1 /\ pcC2' = "get"
          /\ UNCHANGED <<pcM, pcC, pcW, k, cq, wq, uwq, heldC, heldW, startedC, startedW, writes, heldC2>>
C2Next == C2Get \/ C2Put \/ C2Done

(*************************** W ***************************)
WHeader == /\ startedW /\ pcW = "header" /\ writes' = Append(writes, W1("header")) /\ pcW' = "get"
           /\ UNCHANGED <<pcM, pcC, k, cq, wq, ucq, uwq, heldC, heldW, startedC, startedW, pcC2, heldC2>>
WGet == /\ startedW /\ pcW = "get" /\ wq # <<>>
        /\ heldW' = Head(wq) /\ wq' = Tail(wq)
        /\ pcW' = (IF Mutant = "writer_early_done" THEN "done" ELSE "write")
        /\ UNCHANGED <<pcM, pcC, k, cq, ucq, uwq, heldC, startedC, startedW, writes, pcC2, heldC2>>
WWrite == /\ startedW /\ pcW = "write" /\ writes' = Append(writes, W1(Item(heldW)))
          /\ pcW' = (IF Mutant = "writer_early_done" THEN "get" ELSE "done")
          /\ UNCHANGED <<pcM, pcC, k, cq, wq, ucq, uwq, heldC, heldW, startedC, startedW, pcC2, heldC2>>
WDone == /\ startedW /\ pcW = "done" /\ uwq' = uwq - 1
         /\ pcW' = (IF Mutant = "writer_early_done" THEN "write" ELSE "get")
         /\ UNCHANGED <<pcM, pcC, k, cq, wq, ucq, heldC, heldW, startedC, startedW, writes, pcC2, heldC2>>
WNext == WHeader \/ WGet \/ WWrite \/ WDone

Next == MNext \/ CNext \/ WNext \/ C2Next
Spec == Init /\ [][Next]_vars /\ WF_vars(MNext) /\ WF_vars(CNext) /\ WF_vars(WNext) /\ WF_vars(C2Next)

(***************************************************************************)
(* Properties (C16)                                                        *)
(***************************************************************************)
Sequential ==        \* what the strictly sequential execution writes
    << W1("header") >> \o [i \in 1..N |-> W1(Item(i))]
    \o (IF Patch THEN << W2("count"), W2("table") >> ELSE <<>>)
    \o [j \in 1..NFooter |-> W1(Footer(j))] \o << W2("hash") >>

\* The writes reach the file in program order per handle; the bytes of the finished file are determined by the
\* sequence of writes through handle 1 (appends) and the in-place patches.  Output = sequential output.
FileIsSequential == pcM = "returned" => writes = Sequential
\* at every moment the data written so far is a prefix of the sequential data stream (header first, blocks in order)
DataPrefix == LET d == SelectSeq(writes, LAMBDA w : w.h = 1)
                  s == SelectSeq(Sequential, LAMBDA w : w.h = 1)
              IN  Len(d) <= Len(s) /\ \A i \in 1..Len(d) : d[i] = s[i]
NoLateWrite == [][pcM = "returned" => writes' = writes]_vars
Termination == <>(pcM = "returned")
\* the only states without a successor are the ones after return with both workers waiting on empty queues
DeadlockFree == (~ENABLED Next) => pcM = "returned"
TypeOK == /\ Len(cq) <= Cap /\ Len(wq) <= Cap /\ ucq >= 0 /\ uwq >= 0
          /\ ucq >= Len(cq) /\ uwq >= Len(wq)
=============================================================================
