------------------------------ MODULE MC_Config ------------------------------
(* the complete grid of the property, staged: dim, bits, then one blockshape entry per step *)
EXTENDS SgzConfig, TLC
CONSTANT Tier
VARIABLES dim, bits, s
Vals == IF Tier = "quick" THEN {-1, 1, 3, 4, 8, 16, 64, 512, 1024, 8192}
        ELSE {-1, 1, 2, 3, 4, 5, 6, 7, 8, 12, 16, 24, 32, 64, 128, 256, 512, 1024, 2048, 4096, 8192}
Nums == {[str |-> st, n |-> n, d |-> 1] : st \in BOOLEAN, n \in ((-16)..(-1)) \cup (1..32)} \cup
        {[str |-> st, n |-> 1, d |-> d] : st \in BOOLEAN, d \in {2, 4}} \cup {[str |-> FALSE, n |-> 1, d |-> 8], [str |-> FALSE, n |-> 3, d |-> 2]}
Init == dim \in {2, 3} /\ bits \in Nums /\ s = <<>>
Next == Len(s) < 3 /\ \E v \in Vals : s' = Append(s, v) /\ UNCHANGED <<dim, bits>>
Spec == Init /\ [][Next]_<<dim, bits, s>>
Pos(v) == IF v > 0 THEN v ELSE 1
Complete == Len(s) = 3 /\ (\A a \in 1..3 : s[a] = -1 \/ s[a] > 0)
            /\ Pos(s[1]) * Pos(s[2]) <= 131072 /\ Pos(s[1]) * Pos(s[2]) * Pos(s[3]) <= 131072     \* (32-bit safe: <= 2^17 * 2^13)
SoundInv == Complete => (Sound(dim, bits, s) /\ Keeps(dim, bits, s))
\* every valid combination, fully given or with any one of the four parameters left free, is accepted as itself
AcceptsValid ==
    Complete =>
      \A r \in Rates :
        LET given == <<bits.n, bits.d>> = r \/ (r[2] > 1 /\ bits.n = 0 - r[2] /\ bits.d = 1 /\ r[1] = 1)
            free  == bits.n = -1 /\ bits.d = 1
        IN  (given \/ free) =>
              \A t \in {u \in (Vals \ {-1}) \X (Vals \ {-1}) \X (Vals \ {-1}) : \A a \in 1..3 : s[a] = -1 \/ s[a] = u[a]} :
                  (Valid(dim, r, t) /\ ((IF free THEN 1 ELSE 0) + (IF s[1] = -1 THEN 1 ELSE 0) + (IF s[2] = -1 THEN 1 ELSE 0) + (IF s[3] = -1 THEN 1 ELSE 0) <= 1)
                   /\ ~(free /\ bits.str /\ (s[1] = -1 \/ s[2] = -1 \/ s[3] = -1))
                   /\ ~(dim = 2 /\ s[1] = -1))               \* the 2-D entry point insists on blockshape[0] == 1 being given
                  => Resolve(dim, bits, s) = Accept(r, t)
=============================================================================
