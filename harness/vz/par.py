"""Process-parallel map over cases (fork: workers inherit the prepared files/oracle answers copy-on-write)."""
import multiprocessing as mp
import os

G = {}          # set by the caller before pmap; read by the worker function


def pmap(fn, items, procs=None, chunksize=None):
    items = list(items)
    procs = procs or min(16, os.cpu_count() or 1)
    if len(items) < 8 or procs == 1 or os.environ.get('VZ_SERIAL'):
        return [fn(x) for x in items]
    ctx = mp.get_context('fork')
    chunksize = chunksize or max(1, len(items) // (procs * 8))
    with ctx.Pool(procs) as pool:
        return pool.map(fn, items, chunksize)
