----------------------------- MODULE MC_Ingest -----------------------------
(* C08 / C09 / C11 exhaustive on small inputs.
   mode "irr": every subset of an NI x NX grid in which every inline and crossline keeps a trace (and at least one hole),
               with independent starts and steps; inline numbers never 0 unless Zero = TRUE (known finding D22).
   mode "win": every window <<a,b,c,d>> with 0 <= a < b <= NI, 0 <= c < d <= NX and every pattern of absent bounds, on an
               inline-sorted and on a crossline-sorted source.
   mode "det": detection of 2-D / regular / irregular for small sources. *)
EXTENDS SgzIngest, TLC
CONSTANTS MaxI, MaxX, Zero, ModeSet
VARIABLES mode, ni, nx, sel, par
ivars == <<mode, ni, nx, sel, par>>
Starts == IF Zero THEN {0, -2} ELSE {-3, 1, 100}
Steps == {1, 2, 3}
Init == /\ mode \in ModeSet /\ ni \in 2..MaxI /\ nx \in 2..MaxX /\ sel = {} /\ par = <<>>
Cells == (0..(ni - 1)) \X (0..(nx - 1))
Next == /\ par = <<>>
        /\ \/ /\ mode = "irr"
              /\ sel' \in {S \in SUBSET Cells : S # Cells /\ (\A i \in 0..(ni - 1) : \E c \in S : c[1] = i) /\ (\A x \in 0..(nx - 1) : \E c \in S : c[2] = x)}
              /\ par' \in {<<s1, d1, s2, d2>> : s1 \in Starts, d1 \in Steps, s2 \in {-3, 0, 7}, d2 \in Steps}
              /\ Zero \/ \A i \in 0..(ni - 1) : par'[1] + i * par'[2] # 0        \* an inline numbered 0 is the format's hole marker (D22)
           \/ /\ mode = "win"
              /\ sel' = {}
              /\ par' \in {<<a, b, c, d>> : a \in {None} \cup 0..(ni - 1), b \in {None} \cup 1..ni, c \in {None} \cup 0..(nx - 1), d \in {None} \cup 1..nx}
              /\ (par'[1] # None /\ par'[2] # None) => par'[1] < par'[2]
              /\ (par'[3] # None /\ par'[4] # None) => par'[3] < par'[4]
           \/ /\ mode = "det"
              /\ sel' \in {S \in SUBSET Cells : S # {}}
              /\ par' \in {<<s1, 1, s2, 1>> : s1 \in {0, 5}, s2 \in {0, 9}}
        /\ UNCHANGED <<mode, ni, nx>>
Spec == Init /\ [][Next]_ivars

\* file order = inline sorted
RECURSIVE SortedSeq(_)
SortedSeq(S) == IF S = {} THEN <<>>
                ELSE LET m == CHOOSE c \in S : \A o \in S : c[1] < o[1] \/ (c[1] = o[1] /\ c[2] <= o[2])
                     IN  <<m>> \o SortedSeq(S \ {m})
Src == LET q == SortedSeq(sel) IN [t \in 1..Len(q) |-> <<par[1] + q[t][1] * par[2], par[3] + q[t][2] * par[4]>>]
True == [il |-> [j \in 1..ni |-> par[1] + (j - 1) * par[2]], xl |-> [j \in 1..nx |-> par[3] + (j - 1) * par[4]]]
Ready == par # <<>>
PIrregular == (Ready /\ mode = "irr") => IrregularOK(Src, True)
PWindow == (Ready /\ mode = "win") => \A srt \in {"il", "xl"} : WindowOKS(ni, nx, par, 4, 2, srt)
\* C09: a source without line numbering, or with a single inline or crossline, is taken as 2-D with its traces in file order;
\*      a full grid with >= 2 lines each way is regular; anything else irregular
PDetect == (Ready /\ mode = "det") =>
              LET s == Src
                  dt == Detect(s)
              IN  /\ (Ils(s) = {0} /\ Xls(s) = {0}) => dt = [kind |-> "2d", n |-> Len(s)]
                  /\ (FullGrid(s) /\ (Cardinality(Ils(s)) = 1 \/ Cardinality(Xls(s)) = 1) /\ ~(Ils(s) = {0} /\ Xls(s) = {0})) => dt = [kind |-> "2d", n |-> Len(s)]
                  /\ (FullGrid(s) /\ Cardinality(Ils(s)) > 1 /\ Cardinality(Xls(s)) > 1) => dt.kind = "regular"
=============================================================================
