"""Thin wrappers around the package's writers (always the real code, outputs silenced)."""
import os

import numpy as np

from . import env


def numpy_to_sgz(path, cube, rate, blockshape=(4, 4, -1), **kw):
    from seismic_zfp.conversion import NumpyConverter
    with env.quiet():
        with NumpyConverter(cube, **kw) as c:
            c.run(path, bits_per_voxel=rate, blockshape=blockshape)
    return path


def segy_to_sgz(src, path, rate=4, blockshape=None, reduce_iops=False, header_detection='heuristic', window=None, np_ints=False):
    from seismic_zfp.conversion import SegyConverter
    kw = {}
    if window is not None:
        if np_ints:         # ordinals as numpy integers (what np.searchsorted on the line axes returns)
            import numpy as np
            window = [np.int64(v) for v in window]
        kw = dict(min_il=window[0], max_il=window[1], min_xl=window[2], max_xl=window[3])
    with env.quiet():
        with SegyConverter(src, **kw) as c:
            c.run(path, bits_per_voxel=rate, blockshape=blockshape, reduce_iops=reduce_iops,
                  header_detection=header_detection)
    return path


def rate_arg(r):
    """Fraction -> the form the API takes (ints, or floats below 1)"""
    from fractions import Fraction
    r = Fraction(r)
    return int(r) if r.denominator == 1 else float(r)


def cli_sgy2sgz(src, path, rate=4, blockshape=None, reduce_iops=False, window=None):
    """the same conversion through the command line interface (click), options spelled as a user would"""
    from click.testing import CliRunner
    from seismic_zfp.cli import cli
    args = ['sgy2sgz', src, path, '--bits-per-voxel', str(rate), '--reduce-iops', 'true' if reduce_iops else 'false']
    if blockshape is not None:
        args += ['--blockshape'] + [str(b) for b in blockshape]
    if window is not None:
        args += ['--min-il', str(window[0]), '--max-il', str(window[1]), '--min-xl', str(window[2]), '--max-xl', str(window[3])]
    with env.quiet():
        r = CliRunner().invoke(cli, args)
    if r.exit_code != 0:
        raise RuntimeError(f'cli exit {r.exit_code}: {r.output[-200:]} {r.exception!r}')
    return path
