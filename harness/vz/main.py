"""./check entry point."""
import argparse
import importlib
import json
import os
import sys
import traceback

from . import env


def main():
    ap = argparse.ArgumentParser()
    ap.add_argument('prop')
    ap.add_argument('--tier', default=os.environ.get('VERIF_TIER') or 'quick', choices=['quick', 'thorough'])
    ap.add_argument('--replay')
    ap.add_argument('--selftest', action='store_true')
    a = ap.parse_args()
    prop = a.prop.upper()
    try:
        env.activate()
        from .findings import Run
        mod = importlib.import_module('vz.props.' + prop.lower())
        run = Run(prop, a.tier, env.SEED)
        if a.replay:
            if not os.path.isabs(a.replay):      # relative to where ./check was called from
                a.replay = os.path.join(os.environ.get('VZ_CALLER_DIR', '.'), a.replay)
            with open(a.replay) as f:
                rep = json.load(f)
            mod.replay(run, rep)
            for fl in run.failures:
                print('REPRODUCED', fl['clause'], str(fl['observed'])[:200])
            if run.failures:
                print(f'VIOLATION property={prop} replay={a.replay}')
                return 1
            print('replay: no failure on the current tree')
            return 0
        if a.selftest:
            return mod.selftest(run)
        mod.run(run)
        return run.finish(**getattr(mod, 'FINISH', {}))
    except SystemExit:
        raise
    except BaseException:
        traceback.print_exc()
        print(f'{prop}: machinery failure (exception)')
        return 2


if __name__ == '__main__':
    sys.exit(main())
