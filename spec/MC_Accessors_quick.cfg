CONSTANT ABug = "none"
CONSTANT MaxLen = 4
SPECIFICATION Spec
INVARIANT PSame
INVARIANT PIter
CHECK_DEADLOCK FALSE
