CONSTANT IBug = "none"
CONSTANT MaxI = 3
CONSTANT MaxX = 4
CONSTANT Zero = FALSE
CONSTANT ModeSet = {"det"}
SPECIFICATION Spec
INVARIANT PIrregular
INVARIANT PWindow
INVARIANT PDetect
CHECK_DEADLOCK FALSE
