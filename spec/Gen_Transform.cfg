CONSTANT DiskBlockBytes = 4096
CONSTANT TBug = "none"
SPECIFICATION Spec
