----------------------------- MODULE MC_Export -----------------------------
(* C06 exhaustive: every source matrix (NFm words x 3 traces x Vals) whose delay word D is the same in every trace, detection modes
   that promise exact headers, regular and one-hole irregular geometry: export(convert(source)) = source. *)
EXTENDS SgzExport, TLC
CONSTANTS NFm, Vals
VARIABLES s, g, k
evars == <<s, g, k>>
D == 1
IL == 2
Cols == {<<a, b, c>> : a \in Vals, b \in Vals, c \in Vals}
ConstCols == {<<a, a, a>> : a \in Vals}
Masks == {<<TRUE, TRUE, TRUE>>, <<FALSE, TRUE, TRUE, TRUE>>, <<TRUE, FALSE, TRUE, TRUE>>, <<TRUE, TRUE, TRUE, FALSE>>}
IlOfPos == <<1, 1, 2, 2>>
ForcedIl(m) == [i \in 1..3 |-> IlOfPos[Pos(m, i)]]
Init == /\ s = <<>> /\ g \in Masks /\ k \in {"thorough", "exhaustive", "heuristic"}
        /\ src = 0 /\ geo = 0 /\ mode = 0 /\ pc = 0 /\ table = 0 /\ keys = 0 /\ cap = 0 /\ file = 0
Next == /\ Len(s) < NFm
        /\ \E c \in (IF Len(s) + 1 = D THEN ConstCols ELSE IF ~Regular(g) /\ Len(s) + 1 = IL THEN {ForcedIl(g)} ELSE Cols) : s' = Append(s, c)
        /\ UNCHANGED <<g, k>> /\ UNCHANGED hvars
Spec == Init /\ [][Next]_<<evars, hvars>>
Mode == [kind |-> k, given |-> {}, il |-> IL, xl |-> 3]
Pre == /\ \A f \in 1..NFm : ConstantF(s, f) \/ Variant(s, f)
       /\ \A f, h \in 1..NFm : (f # h /\ Variant(s, f) /\ Variant(s, h)) => ~(FirstV(s, f) = FirstV(s, h) /\ LastV(s, f) = LastV(s, h))
PRoundTrip == (Len(s) = NFm /\ (k # "heuristic" \/ Pre)) => \A shift \in {0, 4} : RoundTripOK(s, g, Mode, D, shift)
=============================================================================
