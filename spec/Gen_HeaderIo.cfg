CONSTANT DiskBlockBytes = 4096
CONSTANT IoBug = "none"
SPECIFICATION Spec
