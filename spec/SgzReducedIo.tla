----------------------------- MODULE SgzReducedIo -----------------------------
(***************************************************************************)
(* The reduced-I/O SEG-Y route (conversion_utils.py MinimalInlineReader,   *)
(* seismic_file_producer): one big read per inline, taking inline ordinal  *)
(* p of the conversion to be the file traces p*NX .. p*NX + NX - 1.  That  *)
(* is right for a whole, inline-sorted file without extended textual       *)
(* headers; the converter decides by a SELF TEST on the first line (its    *)
(* samples against segyio's first inline) plus a shape comparison, and     *)
(* falls back to segyio otherwise.  The self test sees trace CONTENT, so   *)
(* dead (all-zero) traces are indistinguishable from one another.          *)
(*                                                                         *)
(* A case: grid NI x NX, sorting, the set of dead file traces, an ordinal  *)
(* window [a,b) x [c,d), extended textual headers or not.                  *)
(* Right: whenever the reduced route is taken, every (p, q) of the         *)
(* conversion gets the content of the file trace segyio would supply.      *)
(***************************************************************************)
EXTENDS Naturals, FiniteSets, TLC

CONSTANTS MaxI, MaxX,
          RBug      \* "none" | "selftest_only" (no sorting test: the code before b9b5b21, defect D44)
                    \*        | "xl_guard" (shape guard compares the crossline count only: seed C20l)

FileOrd(NI, NX, srt, i, x) == IF srt = "xl" THEN x * NI + i + 1 ELSE i * NX + x + 1      \* as SgzIngest!FileOrd
MinimalOrd(NX, p, q) == p * NX + q + 1                                                     \* read_line(p): consecutive file traces
Content(dead, t) == IF t \in dead THEN 0 ELSE t

VARIABLES NI, NX, srt, dead, win, ext, fmt     \* fmt: "ieee" (code 5) | "ibm" (code 1) | "int" (any other sample format)
rvars == <<NI, NX, srt, dead, win, ext, fmt>>

SelfTest == /\ ext = 0        \* (with extended textual headers the raw offsets land in text: never equal to samples)
            /\ \A x \in 0..(NX - 1) : Content(dead, MinimalOrd(NX, 0, x)) = Content(dead, FileOrd(NI, NX, srt, 0, x))
ShapeGuardB(bug) == IF bug = "xl_guard" THEN win[4] - win[3] = NX ELSE (win[2] - win[1] = NI /\ win[4] - win[3] = NX)
UsableB(bug) == /\ fmt # "int"
                /\ (bug = "selftest_only" \/ srt = "il")
                /\ SelfTest
                /\ ShapeGuardB(bug)
Usable == UsableB(RBug)
\* what a conversion with reduce_iops = True does.  Deliberate deviation kept from the code: the reduced reader decodes IEEE and IBM
\* floats only and its self test RAISES on any other sample format (no fallback) - a refusal, the segyio route converts such files
\* (the sorting test comes first, so a crossline-sorted file of any format falls back)
Outcome == IF srt = "xl" /\ RBug # "selftest_only" THEN "fallback"
           ELSE IF fmt = "int" THEN "raise" ELSE IF Usable THEN "reduced" ELSE "fallback"
Right == Usable => \A p \in 0..(win[2] - win[1] - 1), q \in 0..(win[4] - win[3] - 1) :
                       Content(dead, MinimalOrd(NX, p, q)) = Content(dead, FileOrd(NI, NX, srt, win[1] + p, win[3] + q))
\* the fallback is not taken needlessly: a whole inline-sorted file without extended headers uses the reduced route
NotTimid == (srt = "il" /\ ext = 0 /\ win = <<0, NI, 0, NX>> /\ fmt # "int") => Usable

Init == /\ NI \in 2..MaxI /\ NX \in 2..MaxX /\ srt \in {"il", "xl"} /\ ext \in {0, 1} /\ fmt \in {"ieee", "ibm", "int"}
        /\ dead \in SUBSET {t \in 1..(NI * NX) : (t - 1) \div NX = 0 \/ (t - 1) % NX = 0 \/ (t - 1) \div NX = NI - 1}      \* edge traces
        /\ win \in {<<a, b, c, d>> : a \in 0..(NI - 1), b \in 1..NI, c \in 0..(NX - 1), d \in 1..NX} /\ win[1] < win[2] /\ win[3] < win[4]
Next == UNCHANGED rvars
Spec == Init /\ [][Next]_rvars
\* (the last flag: some design mutant would take the reduced route here although the code must not - the cases worth converting for real)
Emit == PrintT(<<"RIO", NI, NX, srt, dead, win, ext, fmt, Outcome, (UsableB("selftest_only") \/ UsableB("xl_guard")) /\ ~UsableB("none")>>)
=============================================================================
