CONSTANT CBug = "none"
CONSTANT Tier = "thorough"
SPECIFICATION Spec
INVARIANT SoundInv
INVARIANT AcceptsValid
CHECK_DEADLOCK FALSE
