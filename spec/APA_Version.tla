----------------------------- MODULE APA_Version -----------------------------
(* Apalache: the same lemmas at the REAL radices (4 x 1024 x 1024 x 2 = 8.4 million versions, all pairs symbolically) *)
EXTENDS Integers

VARIABLES
    \* @type: <<Int, Int, Int, Int>>;
    v,
    \* @type: <<Int, Int, Int, Int>>;
    w

RMajor == 4
RMinor == 1024
RPatch == 1024

\* @type: (<<Int, Int, Int, Int>>) => Int;
Enc(x) == RMinor * RPatch * 2 * x[1] + RPatch * 2 * x[2] + 2 * x[3] + x[4]
\* @type: (Int) => <<Int, Int, Int, Int>>;
Dec(e) == LET ma == e \div (RMinor * RPatch * 2)
              mi == (e - ma * RMinor * RPatch * 2) \div (RPatch * 2)
              pa == (e - ma * RMinor * RPatch * 2 - mi * RPatch * 2) \div 2
          IN  <<ma, mi, pa, e % 2>>
\* @type: (<<Int, Int, Int, Int>>, <<Int, Int, Int, Int>>) => Bool;
Less(x, y) == \/ x[1] < y[1]
              \/ x[1] = y[1] /\ x[2] < y[2]
              \/ x[1] = y[1] /\ x[2] = y[2] /\ x[3] < y[3]
              \/ x[1] = y[1] /\ x[2] = y[2] /\ x[3] = y[3] /\ x[4] < y[4]
\* @type: (<<Int, Int, Int, Int>>) => Bool;
Valid(x) == x[1] \in 0..(RMajor-1) /\ x[2] \in 0..(RMinor-1) /\ x[3] \in 0..(RPatch-1) /\ x[4] \in {0, 1}

Init == \E a, b \in 0..(RMajor-1), c, d \in 0..(RMinor-1), e, f \in 0..(RPatch-1), g, h \in {0, 1} :
            v = <<a, c, e, g>> /\ w = <<b, d, f, h>>
Next == UNCHANGED <<v, w>>
Lemma == /\ Dec(Enc(v)) = v
         /\ (Less(v, w) <=> Enc(v) < Enc(w))
         /\ (Enc(v) = Enc(w) => v = w)
         /\ Enc(v) >= 0 /\ Enc(v) < RMajor * RMinor * RPatch * 2
=============================================================================
