----------------------------- MODULE Gen_HeaderIo -----------------------------
(* the header-I/O model run on a real file descriptor and a history of header calls: the range reads of every step *)
EXTENDS SgzHeaderIo, Json, IOUtils, SequencesExt
Input == JsonDeserialize(IOEnv.VZ_IN)
Items == Input.items
RECURSIVE Steps(_, _, _, _)
Steps(it, st, k, acc) ==
    IF k > Len(it.history) THEN acc
    ELSE LET c == Call(it.F, it.kind, it.dup, it.maskarr, st, it.history[k][1], it.history[k][2])
         IN  Steps(it, c.st, k + 1, Append(acc, [reads |-> SetToSeq(c.reads), ok |-> c.ok]))
ASSUME JsonSerialize(IOEnv.VZ_OUT, [items |-> [k \in 1..Len(Items) |-> [steps |-> Steps(Items[k], Init0, 1, <<>>)]]])
VARIABLE x
Init == x = 0
Next == x' = x
Spec == Init /\ [][Next]_x
=============================================================================
