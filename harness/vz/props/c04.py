"""C04 trace-header and file-header preservation.

TLC (MC_Headers over SgzHeaders) checks every small source matrix x detection mode x geometry on the model of the
header-word table / footer protocol.  The same abstract matrices (TLC-enumerated, stratified by the class of each field)
are embedded into real SEG-Y files (several field embeddings, value maps at the 2-/4-byte extremes, backgrounds that
populate all 89 fields, trace counts around the 512-byte footer stride, regular / irregular / 2-D geometry), converted in
every mode and read back through every header accessor; the expectation is segyio on the source.  The model is also run
by TLC on the REAL 89 x n matrix of every case: its table / array order / array count are compared with the file the code
wrote (model-vs-code conformance), and its precondition verdict decides what the default detection owes."""
import os

import numpy as np
import segyio

from .. import env, inputs, par, sgzfile, tlc, writers

FINISH = dict(
    level='model_checking',
    rule='abstract matrices = all 3 fields x 3 traces x {0,1,2} enumerated by TLC (Gen_Headers enum), stratified by per-field class '
         '(const zero / const / variant / duplicate / hidden) x precondition; each embedded by several (fields, value map, background, '
         'trace layout, geometry) embeddings and converted in the 4 modes; NumPy route: subsets of fields x integer dtypes; '
         'non-trivial = distinct (embedding, matrix, mode)',
    assumptions=['header values fit the field width (segyio truncates otherwise)', 'irregular sources are inline sorted (C08); regular sources inline- or crossline-sorted',
                 'for the default detection the property only speaks when its precondition holds; decided by TLC on the real matrix'],
    trusted=['segyio', 'numpy', 'TLC'])

MODES = ('heuristic', 'thorough', 'exhaustive', 'strip')
SET3D = [(16, None), (32, (8, 8, 16)), (32, (16, 16, 4)), (0.5, None)]       # (less than one bit per voxel: every length in the header comes from a fractional rate)
SET2D = [(16, None), (8, (1, 4, -1)), (32, (1, 8, 128))]
_K = [None]


def KEYS():
    if _K[0] is None:
        _K[0] = sgzfile.trace_keys()
    return _K[0]


def field_size(k):
    ks = KEYS()
    i = ks.index(k)
    return (ks[i + 1] - k) if i + 1 < len(ks) else 2


# embeddings of the model's three fields into real header words (ascending, never the geometry / sample-count words)
EMBED = [(1, 5, 9), (29, 31, 33), (185, 197, 201), (41, 45, 225), (13, 181, 229), (21, 71, 231), (5, 17, 205), (73, 77, 81)]
RESERVED = (189, 193, 115, 117, 37)      # geometry, sample count / interval, offset (segyio reads geometry from them)


def value_map(fields, variant):
    """abstract 0/1/2 -> real values, per field (2-byte fields get 2-byte extremes)"""
    out = []
    for f in fields:
        two = field_size(f) == 2
        if variant == 0:
            out.append({0: 0, 1: 1, 2: 2})
        elif variant == 1:
            out.append({0: 0, 1: -1, 2: 32767 if two else 2147483647})
        elif variant == 2:
            out.append({0: 0, 1: -32768 if two else -2147483647 - 1, 2: 7})
        else:        # large values with a tiny relative spread (coordinates in centimetres): equal only under a tolerance
            out.append({0: 0, 1: 32766 if two else 671234500, 2: 32767 if two else 671234507})
    return out


GEOMS = {
    'reg2x2': ('reg', (2, 2), ()), 'reg2x3': ('reg', (2, 3), ()), 'reg8x16': ('reg', (8, 16), ()), 'reg3x43': ('reg', (3, 43), ()),
    'reg5x26': ('reg', (5, 26), ()),
    # the same regular cubes stored crossline-sorted (file order: for each crossline, every inline)
    'regx2x3': ('regx', (2, 3), ()), 'regx3x3': ('regx', (3, 3), ()), 'regx5x26': ('regx', (5, 26), ()), 'regx9x4': ('regx', (9, 4), ()),
    'irr2x2': ('irr', (2, 2), ((0, 1),)), 'irr3x3': ('irr', (3, 3), ((0, 0), (1, 1))), 'irr4x5': ('irr', (4, 5), ((3, 4), (0, 2), (2, 0))),
    'irr9x15': ('irr', (9, 15), tuple((i, (i * 7) % 15) for i in range(6))),
    '2d0-5': ('2d0', (1, 5), ()), '2d0-129': ('2d0', (1, 129), ()), '2dil-6': ('2dil', (1, 6), ()), '2dxl-4': ('2dxl', (4, 1), ()),
}


def geometry(name):
    kind, (ni, nx), holes = GEOMS[name]
    pos = [(i, x) for i in range(ni) for x in range(nx) if (i, x) not in holes]
    if kind == 'regx':
        pos = [(i, x) for x in range(nx) for i in range(ni)]
    if kind in ('reg', 'irr', 'regx'):
        ilxl = [(10 + 2 * i, 5 + 3 * x) for i, x in pos]
    elif kind == '2d0':
        ilxl = [(0, 0) for _ in pos]
    elif kind == '2dil':
        ilxl = [(7, 100 + x) for i, x in pos]
    else:
        ilxl = [(100 + i, 7) for i, x in pos]
    grid = [(i, x) for i in range(ni) for x in range(nx)]
    mask = [g in pos for g in grid] if kind == 'irr' else [True] * len(pos)
    return kind, pos, ilxl, mask


def build_headers(case):
    """-> list of per-trace dicts over all 89 fields"""
    kind, pos, ilxl, mask = geometry(case['geom'])
    n = len(pos)
    fields = EMBED[case['embed']]
    vm = value_map(fields, case['vmap'])
    mat = case['mat']
    nz = case.get('nz', 6)

    def col(t):
        if t == 0:
            return 0
        if t == n - 1:
            return 2
        if case.get('onemid'):
            return 1 if t == 1 else 0
        return 1
    H = []
    for t in range(n):
        h = {}
        for k in KEYS():
            bg = case['bg']
            if bg == 'mix':
                bg = ('zero', 'const', 'ramp')[(k // 2) % 3]
            if bg == 'zero':
                v = 0
            elif bg == 'const':
                v = (k % 100) + 1
            else:
                v = 7 * k + t
            h[k] = v
        h[189], h[193] = ilxl[t]
        h[115], h[117] = nz, 4000
        h[109] = 8 if case['bg'] != 'zero' else 0
        h[37] = 0 if case['bg'] == 'zero' else 3        # a varying offset word makes segyio see a pre-stack file
        for j, f in enumerate(fields):
            h[f] = vm[j][mat[j][col(t)]]
        H.append(h)
    return H, kind, mask


def _convert_and_observe(sgy, sgz, mode, truth, kind, mask, n, setting=(16, None)):
    """-> observation dict for one conversion"""
    from seismic_zfp.read import SgzReader
    import seismic_zfp
    obs = {}
    writers.segy_to_sgz(sgy, sgz, setting[0], tuple(setting[1]) if setting[1] else None, header_detection=mode)
    with open(sgz, 'rb') as f:
        hdr = f.read(8192)
    table = sgzfile.parse_table(hdr)
    stored, alias, const = sgzfile.stored_keys(table)
    obs['table'] = [[c, m] for k, c, m in table]
    obs['stored'] = stored
    obs['narr'] = int.from_bytes(hdr[64:68], 'little')
    with open(sgy, 'rb') as f:
        src_fh = f.read(3600)
    keys = KEYS()
    want = np.zeros_like(truth) if mode == 'strip' else truth
    with env.quiet():
        with SgzReader(sgz) as r:
            obs['text_ok'] = bytes(r.file_text_header) == src_fh[:3200]
            obs['bin_ok'] = bytes(r.file_binary_header) == src_fh[3200:3600]
            got = np.zeros((n, len(keys)), dtype=np.int64)
            for i in range(n):
                h = r.gen_trace_header(i)
                got[i] = [int(h[segyio.TraceField(k)]) for k in keys]
            obs['bad_fields'] = [keys[j] for j in np.nonzero((got != want).any(axis=0))[0]]
            if obs['bad_fields']:
                j = keys.index(obs['bad_fields'][0])
                i = int(np.nonzero(got[:, j] != want[:, j])[0][0])
                obs['example'] = {'field': keys[j], 'trace': i, 'got': int(got[i, j]), 'want': int(want[i, j])}
            # whole-array accessor: grid order, zeros at holes
            bad_tf = []
            for k in stored:
                a = np.asarray(r.get_tracefield_values(k)).reshape(-1)
                exp = np.zeros(len(mask), dtype=np.int64)
                exp[np.asarray(mask)] = truth[:, keys.index(k)]
                if a.shape != exp.shape or not np.array_equal(a.astype(np.int64), exp):
                    bad_tf.append(k)
            obs['bad_tracefield'] = bad_tf
        # second reader: load_all_headers path and variant_headers
        with SgzReader(sgz) as r2:
            r2.read_variant_headers()
            obs['vh_keys'] = sorted(int(k) for k in r2.variant_headers.keys())
            bad = []
            for i in (0, n // 2, n - 1):
                h = r2.gen_trace_header(i, load_all_headers=True)
                if [int(h[segyio.TraceField(k)]) for k in keys] != [int(v) for v in want[i]]:
                    bad.append(i)
            obs['bad_loadall'] = bad
        with seismic_zfp.open(sgz) as e:
            bad = []
            for i in (0, n - 1, -1):
                h = e.header[i]
                if [int(h[segyio.TraceField(k)]) for k in keys] != [int(v) for v in want[i]]:
                    bad.append(i)
            obs['bad_emulator'] = bad
            with segyio.open(sgy, strict=False) as s:
                obs['bin_dict_ok'] = dict(e.bin) == dict(s.bin)
                obs['text0_ok'] = bytes(e.text[0]) == bytes(s.text[0])
    return obs


def _segy_worker(item):
    ci, case = item
    d = env.subdir(f'c04-{os.getpid()}')
    sgy = os.path.join(d, f'h{ci}.sgy')
    out = {'modes': {}}
    try:
        H, kind, mask = build_headers(case)
        n = len(H)
        nz = case.get('nz', 6)
        traces = inputs.cube((n, nz), par.G['seed'] + ci)
        text = (('C04 CASE %d ' % ci) * 300)[:3200].encode('ascii')
        inputs.write_segy_traces(sgy, traces, 8.0 + 4.0 * np.arange(nz), H, text=text,
                                 bin_fields={segyio.BinField.JobID: 4242 + ci, segyio.BinField.LineNumber: -7, segyio.BinField.Traces: n,
                                             segyio.BinField.EnsembleFold: (1, 300)[ci % 2],
                                             **({segyio.BinField.Interval: 0} if ci % 5 == 2 else {})})        # (interval in the trace headers only)
        keys = KEYS()
        with segyio.open(sgy, strict=False) as s:
            truth = np.array([[int(s.header[i][k]) for k in keys] for i in range(n)], dtype=np.int64)
        if kind == 'regx':      # trace i of a regular SGZ is grid position i (inline-major): the source header AT that position
            pos = geometry(case['geom'])[1]
            truth = truth[sorted(range(n), key=lambda t: pos[t])]
        out['n'] = n
        out['mask'] = mask
        # the matrix handed to TLC: values renamed to small codes (0 stays 0) - only equality and zero-ness matter
        vals = sorted(set(int(v) for v in truth.reshape(-1)) - {0})
        code = {0: 0}
        code.update({v: i + 1 for i, v in enumerate(vals)})
        out['codes'] = [[code[int(truth[i, j])] for i in range(n)] for j in range(len(keys))]
        out['decode'] = [0] + vals
        for mode in case['modes']:
            sgz = os.path.join(d, f'h{ci}-{mode}.sgz')
            try:
                out['modes'][mode] = _convert_and_observe(sgy, sgz, mode, truth, kind, mask, n, case.get('setting') or (16, None))
            except BaseException as e:
                if isinstance(e, (KeyboardInterrupt, SystemExit, MemoryError)):
                    raise
                out['modes'][mode] = {'error': f'{type(e).__name__}: {e}'}
            finally:
                if os.path.exists(sgz):
                    os.remove(sgz)
    except BaseException as e:
        if isinstance(e, (KeyboardInterrupt, SystemExit, MemoryError)):
            raise
        out['error'] = f'{type(e).__name__}: {e}'
    finally:
        if os.path.exists(sgy):
            os.remove(sgy)
    return out


# ---------------------------------------------------------------------------------------------------------------
DTYPES = ('int8', 'int16', 'int32', 'int64', 'uint8', 'uint16', 'uint32', 'intc', '>i4', '>i2', '>i8', '<i4', '>u4')      # (arrays decoded from SEG-Y bytes are big-endian)


def _numpy_worker(item):
    ci, case = item
    from seismic_zfp.read import SgzReader
    d = env.subdir(f'c04n-{os.getpid()}')
    p = os.path.join(d, f'n{ci}.sgz')
    try:
        ni, nx = case['shape']
        rng = np.random.default_rng(par.G['seed'] * 1000 + ci)
        cube = inputs.cube((ni, nx, 5), par.G['seed'] + ci)
        th, expect = {}, {}
        for f, dt in zip(case['fields'], case['dtypes']):
            info = np.iinfo(np.dtype(dt))
            lo, hi = max(info.min, -2**31), min(info.max, 2**31 - 1)
            a = rng.integers(lo, hi, size=(ni, nx), endpoint=True).astype(dt)
            a[0, 0], a[-1, -1] = lo, hi
            if case.get('flat') == f:
                a[:] = a[0, 0]
            if f in (189, 193):          # a given inline / crossline array is the axis, broadcast (the converter takes its first column / row as the axis)
                ax = (np.arange(ni) * 3 + 7) if f == 189 else (np.arange(nx) * 2 + 5)
                ax = np.clip(ax, lo, hi)
                a = (np.broadcast_to(ax[:, None], (ni, nx)) if f == 189 else np.broadcast_to(ax[None, :], (ni, nx))).astype(dt).copy()
            th[int(f)] = a         # segyio.TraceField.X is a plain int
            expect[f] = a.astype(np.int64)
        kw = {}
        il = 100 + 3 * np.arange(ni)
        xl = -20 + 2 * np.arange(nx)
        if case.get('axes'):
            kw = dict(ilines=il, xlines=xl)
        else:
            il, xl = np.arange(ni), np.arange(nx)
        if 189 in expect:
            il = expect[189][:, 0]
            kw.pop('ilines', None)
        if 193 in expect:
            xl = expect[193][0, :]
            kw.pop('xlines', None)
        expect.setdefault(189, np.broadcast_to(np.asarray(il)[:, None], (ni, nx)).astype(np.int64))
        expect.setdefault(193, np.broadcast_to(np.asarray(xl)[None, :], (ni, nx)).astype(np.int64))
        writers.numpy_to_sgz(p, cube, 16, (4, 4, -1), trace_headers=th, **kw)
        keys = KEYS()
        bad, bad_tf = [], []
        with env.quiet():
            with SgzReader(p) as r:
                stored = [int(k) for k in r.stored_header_keys]
                for i in range(ni * nx):
                    h = r.gen_trace_header(i)
                    for k in keys:
                        w = int(expect[k].reshape(-1)[i]) if k in expect else 0
                        if int(h[segyio.TraceField(k)]) != w and k not in bad:
                            bad.append(k)
                for k in expect:
                    a = np.asarray(r.get_tracefield_values(k))
                    if a.shape != (ni, nx) or not np.array_equal(a.astype(np.int64), expect[k]):
                        bad_tf.append(k)
            # the bulk path on a reader of its own (whole arrays loaded first, then indexed by trace): the same headers
            with SgzReader(p) as r2:
                for i in sorted({0, 1, nx, ni * nx // 2, ni * nx - 1}):
                    try:
                        h = r2.gen_trace_header(i, load_all_headers=True)
                    except BaseException as e2:
                        if isinstance(e2, (KeyboardInterrupt, SystemExit, MemoryError)):
                            raise
                        bad.append(f'load_all[{i}]: {type(e2).__name__}')
                        continue
                    for k in keys:
                        w = int(expect[k].reshape(-1)[i]) if k in expect else 0
                        if int(h[segyio.TraceField(k)]) != w and f'load_all:{k}' not in bad:
                            bad.append(f'load_all:{k}')
        return {'bad': bad, 'bad_tf': bad_tf, 'stored': stored, 'want_stored': sorted(expect)}
    except BaseException as e:
        if isinstance(e, (KeyboardInterrupt, SystemExit, MemoryError)):
            raise
        return {'error': f'{type(e).__name__}: {e}'}
    finally:
        if os.path.exists(p):
            os.remove(p)


# ---------------------------------------------------------------------------------------------------------------
def abstract_matrices(run, per_class):
    out = tlc.oracle('Gen_Headers', {'items': [{'op': 'enum', 'nf': 3, 'nt': 3, 'vals': [0, 1, 2]}]}, key='items')
    run.add_tlc({'distinct': 0, 'generated': out['_tlc']['generated'], 'wall_s': out['_tlc']['wall_s']}, 'Gen_Headers(enum)')
    mats = out['items'][0]['mats']
    run.extra['abstract_matrices_enumerated'] = len(mats)
    rng = np.random.default_rng(run.seed)
    by = {}
    for m in mats:
        by.setdefault((tuple(m['cls']), m['pre']), []).append(m['src'])
    chosen = []
    for key in sorted(by):
        L = by[key]
        idx = rng.permutation(len(L))[:per_class]
        chosen += [(key, L[i]) for i in idx]
    run.extra['abstract_classes'] = len(by)
    return chosen


def plan(run):
    quick = run.tier == 'quick'
    chosen = abstract_matrices(run, 2 if quick else 24)
    rng = np.random.default_rng(run.seed + 1)
    small = ['reg2x2', 'reg2x3', 'irr2x2', 'irr3x3', '2d0-5', '2dil-6', '2dxl-4', 'irr4x5', 'regx2x3', 'regx3x3']
    big = ['reg8x16', 'reg3x43', 'reg5x26', 'irr9x15', '2d0-129', 'regx5x26', 'regx9x4']
    cases = []
    for k, (key, mat) in enumerate(chosen):
        g = small[k % len(small)]
        kind = GEOMS[g][0]
        modes = [m for m in MODES if not (kind == 'irr' and m == 'strip')]
        cases.append({'geom': g, 'embed': int(rng.integers(len(EMBED))), 'vmap': k % 4, 'bg': ('zero', 'const', 'mix', 'ramp')[(k // 3) % 4],
                      'mat': mat, 'onemid': bool((k // 5) % 2), 'modes': modes, 'cls': list(key[0])})
    # trace counts around the 512-byte stride, many arrays (third array at the right offset)
    for k, g in enumerate(big if quick else big * 3):
        kind = GEOMS[g][0]
        key, mat = chosen[int(rng.integers(len(chosen)))]
        # the headers are captured plane set by plane set: block heights 4 / 8 / 16 (and 2-D trace groups of 4 / 8 / 16)
        st = SET2D[k % 3] if kind.startswith('2d') else SET3D[k % 4]
        cases.append({'geom': g, 'embed': k % len(EMBED), 'vmap': k % 4, 'bg': ('ramp', 'mix')[k % 2], 'mat': mat, 'onemid': False,
                      'modes': [m for m in MODES if not (kind == 'irr' and m == 'strip')], 'cls': list(key[0]), 'setting': st})
        if quick:       # and the same source under the next setting
            st2 = SET2D[(k + 1) % 3] if kind.startswith('2d') else SET3D[(k + 1) % 4]
            cases.append({'geom': g, 'embed': (k + 3) % len(EMBED), 'vmap': (k + 1) % 4, 'bg': 'mix', 'mat': mat, 'onemid': False,
                          'modes': ['thorough', 'heuristic'], 'cls': list(key[0]), 'setting': st2})
    # every embedding with a word whose values differ by a tiny relative amount only (equal under a float tolerance, not as integers)
    for e in range(len(EMBED)):
        for j, pat in enumerate(([1, 2, 1], [1, 1, 2], [2, 1, 1], [2, 2, 1])):
            mat = [[1, 1, 1], [0, 0, 0], [2, 2, 2]]
            mat[(e + j) % 3] = pat
            g = small[(e + j) % len(small)]
            cases.append({'geom': g, 'embed': e, 'vmap': 3, 'bg': ('const', 'zero')[j % 2], 'mat': mat, 'onemid': bool(j % 2),
                          'modes': [m for m in MODES if not (GEOMS[g][0] == 'irr' and m == 'strip')], 'cls': ['v', 'z', 'c']})
    # header words that duplicate one another (they share ONE stored array under the default detection), on every kind of geometry
    for j, g in enumerate(('reg2x3', 'reg8x16', 'regx3x3', 'irr3x3', '2dil-6', 'reg5x26')):
        for mat in ([[0, 1, 2], [0, 1, 2], [1, 1, 1]], [[1, 0, 2], [2, 2, 2], [1, 0, 2]], [[2, 1, 0], [2, 1, 0], [2, 1, 0]]):
            cases.append({'geom': g, 'embed': (j + len(mat[0])) % len(EMBED), 'vmap': j % 3, 'bg': ('zero', 'const')[j % 2], 'mat': mat, 'onemid': False,
                          'modes': [m for m in MODES if not (GEOMS[g][0] == 'irr' and m == 'strip')], 'cls': ['d', 'd', 'c']})
    # traces of more than 32767 samples (the sample-count word is an UNSIGNED 16-bit field): a 2-D line and a small cube
    for j, g in enumerate(('2dil-6', '2d0-5', 'reg2x3')):
        cases.append({'geom': g, 'embed': j % len(EMBED), 'vmap': j % 3, 'bg': ('const', 'mix', 'ramp')[j], 'mat': [[0, 1, 2], [1, 1, 1], [2, 0, 1]], 'onemid': False,
                      'modes': list(MODES), 'cls': ['v', 'c', 'v'], 'nz': 33000})
    ncases = []
    shapes = [(2, 2), (8, 16), (3, 43), (2, 3), (5, 26)]
    keys = KEYS()
    free = [k for k in keys if k not in (115, 117)]
    for k in range(24 if quick else 200):
        nf = int(rng.integers(0, 6))
        fields = sorted(int(x) for x in rng.choice(free, size=nf, replace=False))
        if k % 4 == 0 and 197 not in fields:
            fields = sorted(fields + [197])         # a word after the inline/crossline words
        if k % 5 == 0 and 189 not in fields:
            fields = sorted(fields + [189])
        ncases.append({'shape': shapes[k % len(shapes)], 'fields': fields, 'dtypes': [DTYPES[(k + j) % len(DTYPES)] for j in range(len(fields))],
                       'axes': k % 2 == 0, 'flat': fields[0] if (k % 7 == 0 and fields and fields[0] not in (189, 193)) else None})
    return cases, ncases


def judge_segy(run, ci, case, res, ev):
    base = {k: case[k] for k in ('geom', 'embed', 'vmap', 'bg', 'mat', 'onemid')}
    if case.get('setting'):
        base['setting'] = [case['setting'][0], list(case['setting'][1]) if case['setting'][1] else None]
    if case.get('nz'):
        base['nz'] = case['nz']
    if 'error' in res:
        run.machinery(f'C04 case {base}: {res["error"]}')
        return
    keys = KEYS()
    dec = res['decode']
    for mode in case['modes']:
        c = dict(base, mode=mode)
        o = res['modes'][mode]
        nontrivial = any(x in 'vdh' for x in case['cls'])
        run.case(c, nontrivial=True)
        if 'error' in o:
            run.fail(f'C04.converts[{mode}]', c, o['error'], 'a readable file')
            continue
        pre = ev['pre']
        owes = mode in ('thorough', 'exhaustive', 'strip') or (mode == 'heuristic' and pre)
        if owes:
            run.check(not o['bad_fields'], f'C04.header[{mode}]', c, {'fields': o['bad_fields'][:8], 'example': o.get('example')},
                      'every field of every trace as in the source' if mode != 'strip' else 'every field zero')
            run.check(not o['bad_loadall'], f'C04.header-loadall[{mode}]', c, o['bad_loadall'], [])
            run.check(not o['bad_emulator'], f'C04.header-emulator[{mode}]', c, o['bad_emulator'], [])
            if mode != 'strip':
                run.check(not o['bad_tracefield'], f'C04.tracefield-array[{mode}]', c, o['bad_tracefield'], [])
        else:
            run.ok('C04.outside-precondition[heuristic]')
            # outside the precondition the property is silent; the model still says what the code does (e.g. true duplicates read back
            # exactly through their shared array): a disagreement is reported as drift, never as a violation
            em0 = [m for m in ev['modes'] if m['mode'] == mode][0]
            if em0['exact'] and (o['bad_fields'] or o['bad_loadall'] or o['bad_emulator']):
                run.drift(f'{c}: SgzHeaders predicts an exact read-back (outside the heuristic precondition) but fields {o["bad_fields"][:6]} differ')
        if mode != 'strip':
            run.check(o['text_ok'] and o['bin_ok'], f'C04.file-header-bytes[{mode}]', c, {'text': o['text_ok'], 'bin': o['bin_ok']}, 'byte-identical')
            run.check(o['bin_dict_ok'] and o['text0_ok'], f'C04.bin-text-accessors[{mode}]', c, {'bin': o['bin_dict_ok'], 'text0': o['text0_ok']}, 'as segyio')
        # model-vs-code conformance (not a property observable): table, array order, count
        em = [m for m in ev['modes'] if m['mode'] == mode][0]
        mtable = [[dec[cc], keys[mm - 1] if mm else 0] for cc, mm in em['table']]
        mkeys = [keys[x - 1] for x in em['keys']]
        if mtable != o['table'] or mkeys != o['stored'] or em['narr'] != o['narr']:
            diff = [(keys[j], mtable[j], o['table'][j]) for j in range(len(keys)) if mtable[j] != o['table'][j]][:4]
            run.drift(f'{c}: table/order differs from SgzHeaders: {diff} model keys {mkeys[:6]} file {o["stored"][:6]} narr {em["narr"]}/{o["narr"]}')
        else:
            run.traces_validated += 1
        if owes and em['exact'] is False:
            run.drift(f'{c}: the model predicts an inexact read-back although the property owes exactness: fields {[keys[x-1] for x in em["bad"]][:6]}')


def run(run):
    run.mc('MC_Headers', f'MC_Headers_{run.tier}')
    cases, ncases = plan(run)
    par.G['seed'] = run.seed
    res = par.pmap(_segy_worker, list(enumerate(cases)), chunksize=2)
    keys = KEYS()
    items, idx = [], []
    for ci, (case, r) in enumerate(zip(cases, res)):
        if isinstance(r, par.Crash):
            run.fail('C04.converts', {k: case[k] for k in ('geom', 'embed', 'vmap', 'bg', 'mat')}, str(r), 'no crash')
            continue
        if 'error' in r:
            judge_segy(run, ci, case, r, None)
            continue
        items.append({'op': 'eval', 'modes': list(case['modes']), 'given': [], 'il': keys.index(189) + 1, 'xl': keys.index(193) + 1,
                      'geo': [bool(x) for x in r['mask']], 'src': r['codes']})
        idx.append((ci, case, r))
    out = tlc.oracle('Gen_Headers', {'items': items}, key='items', timeout=1200)
    run.add_tlc({'distinct': 0, 'generated': out['_tlc']['generated'], 'wall_s': out['_tlc']['wall_s']}, 'Gen_Headers(eval on real matrices)')
    for (ci, case, r), ev in zip(idx, out['items']):
        judge_segy(run, ci, case, r, ev)
    nres = par.pmap(_numpy_worker, list(enumerate(ncases)), chunksize=2)
    for case, r in zip(ncases, nres):
        c = {'numpy': True, 'shape': list(case['shape']), 'fields': case['fields'], 'dtypes': case['dtypes'], 'axes': case['axes'], 'flat': case['flat']}
        run.case(c)
        if isinstance(r, par.Crash) or 'error' in r:
            run.fail('C04.converts[numpy]', c, str(r if isinstance(r, par.Crash) else r['error']), 'a readable file')
            continue
        run.check(not r['bad'], 'C04.header[numpy]', c, r['bad'][:8], 'given arrays and default il/xl exact, other fields zero')
        run.check(not r['bad_tf'], 'C04.tracefield-array[numpy]', c, r['bad_tf'][:8], [])
        if r['stored'] != r['want_stored']:
            run.drift(f'{c}: stored keys {r["stored"]} != {r["want_stored"]}')


def replay(run, rep):
    c = rep['case']
    par.G['seed'] = run.seed
    keys = KEYS()
    if c.get('numpy'):
        case = {'shape': tuple(c['shape']), 'fields': c['fields'], 'dtypes': c['dtypes'], 'axes': c['axes'], 'flat': c['flat']}
        cases, ncases = plan(run)
        ci = [i for i, x in enumerate(ncases) if x['fields'] == case['fields'] and list(x['shape']) == list(case['shape']) and x['dtypes'] == case['dtypes']]
        r = _numpy_worker((ci[0] if ci else 0, case))
        if 'error' in r:
            run.fail('C04.converts[numpy]', c, r['error'], None)
            return
        run.check(not r['bad'], 'C04.header[numpy]', c, r['bad'][:8], None)
        run.check(not r['bad_tf'], 'C04.tracefield-array[numpy]', c, r['bad_tf'][:8], None)
        return
    cases, _ = plan(run)
    ci = [i for i, x in enumerate(cases) if all(x[k] == c[k] for k in ('geom', 'embed', 'vmap', 'bg', 'mat', 'onemid')) and x.get('nz') == c.get('nz')
          and [x.get('setting', (16, None))[0], list(x.get('setting', (16, None))[1]) if x.get('setting', (16, None))[1] else None] == c.get('setting', [16, None])]
    case = dict(cases[ci[0]]) if ci else dict(c, cls=['v'], modes=[c['mode']])
    case['modes'] = [c['mode']]
    r = _segy_worker((ci[0] if ci else 0, case))
    if 'error' in r:
        run.machinery(r['error'])
        return
    out = tlc.oracle('Gen_Headers', {'items': [{'op': 'eval', 'modes': case['modes'], 'given': [], 'il': keys.index(189) + 1,
                                                'xl': keys.index(193) + 1, 'geo': [bool(x) for x in r['mask']], 'src': r['codes']}]}, key='items')
    judge_segy(run, 0, case, r, out['items'][0])
