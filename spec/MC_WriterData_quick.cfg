CONSTANT DiskBlockBytes = 64
CONSTANT WBug = "none"
CONSTANT Tier = "quick"
SPECIFICATION Spec
INVARIANT Layout
INVARIANT Hash
INVARIANT Rows
CHECK_DEADLOCK FALSE
