----------------------------- MODULE MC_History -----------------------------
(* C15: caches, preload and shared handles never change a result.
   State = what the code remembers between calls: the class-level maxsize-1 caches of the loader methods (shared by
   every reader object, keyed by loader instance + arguments), each reader's containing-chunk LRU (capacity K) and
   each reader's sticky header state.  A call served from a cache returns the buffer that was stored under the key,
   i.e. the loader result of the call that FILLED the entry; HistoryFree says the provenance of what is returned is
   still what the API means for the CURRENT arguments.  Every history over the alphabet (a JSON file written by the
   harness for a real file) up to depth D is explored, and printed so that the harness replays it on the real code. *)
EXTENDS SgzReader, Json, IOUtils, TLC

Input == JsonDeserialize(IOEnv.VZ_IN)
F == Input.F
Alphabet == Input.alphabet          \* sequence of [r, op, a]; r = reader id; op "close" closes reader r (clears every cache)
K == Input.K                        \* chunk cache capacity
D == Input.D                        \* history depth
Readers == {Alphabet[i].r : i \in 1..Len(Alphabet)}
Methods == {"il_set", "xl_set", "zslice_set", "zslice_set_adv", "chunk_range", "unshuffle", "trace_range", "unshuffle_2d"}
Nil == [r |-> 0, key |-> <<>>, L |-> <<>>]

VARIABLES lru, chunk, hist, ok, hits
vars == <<lru, chunk, hist, ok, hits>>

\* thread the cache state through the parts of one call; returns [lru, ch, parts (with the buffer actually used), hits]
RECURSIVE Serve(_, _, _, _, _, _)
Serve(r, parts, k, l, ch, acc) ==
    IF k > Len(parts) THEN [lru |-> l, ch |-> ch, parts |-> acc.parts, hits |-> acc.hits]
    ELSE LET p == parts[k]
             inChunk == p.ck # <<>> /\ \E j \in 1..Len(ch) : ch[j].key = p.ck
             cj == CHOOSE j \in 1..Len(ch) : ch[j].key = p.ck
             l1hit == l[p.m].r = r /\ l[p.m].key = p.key
             used == IF inChunk THEN ch[cj].L ELSE IF l1hit THEN l[p.m].L ELSE p.L
             l2 == IF inChunk \/ l1hit THEN l ELSE [l EXCEPT ![p.m] = [r |-> r, key |-> p.key, L |-> p.L]]
             ch2 == IF p.ck = <<>> THEN ch
                    ELSE IF inChunk THEN <<ch[cj]>> \o [j \in 1..(Len(ch)-1) |-> IF j < cj THEN ch[j] ELSE ch[j+1]]
                    ELSE LET ins == <<[key |-> p.ck, L |-> used]>> \o ch
                         IN  IF Len(ins) > K THEN SubSeq(ins, 1, K) ELSE ins
         IN  Serve(r, parts, k + 1, l2, ch2,
                   [parts |-> Append(acc.parts, [p EXCEPT !.L = used]),
                    hits |-> Append(acc.hits, IF inChunk THEN "chunk" ELSE IF l1hit THEN "lru" ELSE "miss")])

Do(c) ==
    IF c.op = "close"
    THEN /\ lru' = [m \in Methods |-> Nil]
         /\ chunk' = [chunk EXCEPT ![c.r] = <<>>]
         /\ ok' = TRUE /\ hits' = <<>>
    ELSE IF c.op \in {"gen_trace_header", "get_tracefield_values", "read_variant_headers"}
    THEN \* header reads keep no state that a sample read or another header read depends on (SgzHeaders covers their values)
         /\ UNCHANGED <<lru, chunk>> /\ ok' = TRUE /\ hits' = <<>>
    ELSE LET out == Call(F, c.op, c.a)
             alts == Ideal(F, c.op, c.a)
         IN  IF out.kind = "raise"
             THEN /\ UNCHANGED <<lru, chunk>> /\ hits' = <<>>
                  /\ ok' = \E k \in 1..Len(alts) : MatchesAlt(F, out, alts[k])
             ELSE LET s == Serve(c.r, out.parts, 1, lru, chunk[c.r], [parts |-> <<>>, hits |-> <<>>])
                      served == [out EXCEPT !.parts = s.parts]
                  IN  /\ lru' = s.lru
                      /\ chunk' = [chunk EXCEPT ![c.r] = s.ch]
                      /\ hits' = s.hits
                      /\ ok' = \E k \in 1..Len(alts) : MatchesAlt(F, served, alts[k])

Init == /\ lru = [m \in Methods |-> Nil] /\ chunk = [r \in Readers |-> <<>>] /\ hist = <<>> /\ ok = TRUE /\ hits = <<>>
Next == Len(hist) < D /\ \E i \in 1..Len(Alphabet) : Do(Alphabet[i]) /\ hist' = Append(hist, i)
Spec == Init /\ [][Next]_vars

HistoryFree == ok
\* every complete history is printed: "H <indices> | <cache outcome of the last call>"
Emit == Len(hist) >= 1 => PrintT(<<"H", hist, hits>>)
=============================================================================
