"""Files under test: descriptor, TLC layout, reference decode, header oracle; batch oracle evaluation."""
import numpy as np

from . import sgzfile, tlc

_fields = [None]

BOOT = {"dim": 3, "n": [5, 6, 70], "b": [4, 4, 64], "ub": 256, "hblk": 2, "padfoot": True, "narr": 0, "ntr": 30,
        "il": {"s": 1, "d": 1}, "xl": {"s": 20, "d": 2}, "zs": {"s": 0, "d": 2}, "mask": []}


def fields(run=None):
    if _fields[0] is None:
        o = tlc.oracle('Gen_Api', {'files': [BOOT], 'calls': []})
        _fields[0] = o['files'][0]['fields']
    return _fields[0]


class FileCase:
    def __init__(self, path, label=None):
        self.path, self.label = path, label or path.split('/')[-1]
        self.F, self.meta = sgzfile.descriptor(path, fields())
        self.F['zs'] = {'s': 0, 'd': 2}
        self.ref = None
        self.layout = None

    def attach(self, layout):
        self.layout = layout
        self.ref = sgzfile.RefFile(self.path, fields(), F=self.F, meta=self.meta).load(layout)
        F = self.F
        self.stored, self.alias, self.const = sgzfile.stored_keys(self.meta['table'])
        if F['dim'] == 3 and F['ntr'] != F['n'][0] * F['n'][1]:
            k = self.stored.index(189) if 189 in self.stored else None
            if k is None:
                raise ValueError('irregular file without inline array')
            F['mask'] = [bool(v) for v in (self.ref.footer_array(k) != 0)]
        return self

    def header(self, grid):
        """trace header of grid position `grid` from the file, by the specification's table semantics"""
        h = {}
        for key, c, m in self.meta['table']:
            if key in self.const:
                h[key] = self.const[key]
            elif key in self.alias:
                h[key] = h[self.alias[key]]
            else:
                h[key] = int(self.ref.footer_array(self.stored.index(key))[grid])
        return h


def load_files(paths, run=None):
    cases = [p if isinstance(p, FileCase) else FileCase(p) for p in paths]
    out = tlc.oracle('Gen_Api', {'files': [c.F for c in cases], 'calls': []})
    if run is not None:
        run.add_tlc({'distinct': 0, 'generated': out['_tlc']['generated'], 'wall_s': out['_tlc']['wall_s']}, 'Gen_Api(layout)')
    for c, lay in zip(cases, out['files']):
        c.attach(lay)
    return cases


def eval_calls(cases, calls, run=None, model=True):
    """calls: list of (file index (0-based), op, args) -> list of oracle answers {alts, needed, model}"""
    payload = {'files': [c.F for c in cases],
               'calls': [{'f': f + 1, 'op': op, 'a': list(a), 'model': bool(model)} for f, op, a in calls]}
    out = tlc.oracle('Gen_Api', payload, timeout=3600 if (run is not None and getattr(run, 'tier', 'quick') == 'thorough') else 900)
    if run is not None:
        run.add_tlc({'distinct': 0, 'generated': out['_tlc']['generated'], 'wall_s': out['_tlc']['wall_s']}, 'Gen_Api(calls)')
    return out['calls']
