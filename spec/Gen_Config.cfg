CONSTANT CBug = "none"
SPECIFICATION Spec
