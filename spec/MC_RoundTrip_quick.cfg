CONSTANT IBug = "none"
CONSTANT MaxI = 4
CONSTANT MaxX = 4
SPECIFICATION Spec
INVARIANT PHeaderStays
INVARIANT PByPosition
INVARIANT POrderKept
CHECK_DEADLOCK FALSE
